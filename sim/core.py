# Deterministic-simulation core for the xdis checks.
#
# Python 3.8 syntax throughout: the same files run under every host interpreter
# (3.8 ... 3.13) that can import /repo's xdis.
#
# Nothing in here touches xdis state.  The module provides:
#   * SeedStream  - the only source of randomness (built on getrandbits only, so
#                   that one seed gives the same choices on every host version)
#   * pin_environment_and_reexec - PYTHONHASHSEED/TZ/locale pinning + ASLR off
#   * fork_call   - run a function in a fork of the current (zygote) process with
#                   rlimits, faulthandler, wall watchdog; crash = outcome
#   * run_sharded - 16-way process pool whose worker count never influences a run
#   * Evidence    - evidence-file writer (schema /root/.vp/EVIDENCE.schema.json)
#   * scratch directory handling (tmpfs, removed on exit)

import atexit
import base64
import errno
import hashlib
import json
import os
import select
import shutil
import signal
import sys
import time
import traceback

VERIF_DIR = os.path.dirname(os.path.dirname(os.path.abspath(__file__)))
REPO_DIR = os.environ.get("XDIS_VERIF_REPO", "/repo")
XDIS_DIR = os.path.join(REPO_DIR, "xdis")
EVIDENCE_DIR = os.path.join(VERIF_DIR, "evidence")
REPLAY_DIR = os.path.join(VERIF_DIR, "replays")
KNOWN_FINDINGS = os.path.join(VERIF_DIR, "known_findings.json")

PINNED_ENV = {
    "PYTHONHASHSEED": "0",
    "TZ": "UTC",
    "LC_ALL": "C.UTF-8",
    "LANG": "C.UTF-8",
    "PYTHONDONTWRITEBYTECODE": "1",
    "PYTHONWARNINGS": "ignore",
    "PYTHONIOENCODING": "utf-8",
    "PYTHONUTF8": "1",
    "XDIS_VERIF": "1",
}
PIN_MARK = "XDIS_VERIF_PINNED"

EXIT_OK = 0
EXIT_VIOLATION = 1
EXIT_HARNESS = 2


class HarnessError(Exception):
    """Something is wrong with the simulator itself: never a property verdict."""


# --------------------------------------------------------------------------- seeds


def derive_seed(master, prop, index, salt=""):
    h = hashlib.sha256(
        ("%d:%s:%d:%s" % (master, prop, index, salt)).encode("ascii")
    ).digest()
    return int.from_bytes(h[:8], "big")


class SeedStream:
    """PRNG whose every method is defined in terms of getrandbits() only.

    random.Random's higher-level helpers changed between 3.8 and 3.13; getrandbits on
    an int-seeded Mersenne twister did not.  One integer -> one sequence, everywhere.
    """

    def __init__(self, seed):
        import random

        self.seed = int(seed)
        self._r = random.Random(self.seed)
        self.draws = 0

    def bits(self, k):
        self.draws += 1
        return self._r.getrandbits(k) if k > 0 else 0

    def below(self, n):
        """uniform integer in [0, n)"""
        if n <= 1:
            return 0
        k = (n - 1).bit_length()
        while True:
            v = self.bits(k)
            if v < n:
                return v

    def between(self, lo, hi):
        """uniform integer in [lo, hi]"""
        return lo + self.below(hi - lo + 1)

    def chance(self, num, den):
        return self.below(den) < num

    def choice(self, seq):
        return seq[self.below(len(seq))]

    def weighted(self, pairs):
        """pairs: list of (item, integer weight)"""
        total = sum(w for _, w in pairs)
        x = self.below(total)
        for item, w in pairs:
            if x < w:
                return item
            x -= w
        return pairs[-1][0]

    def shuffle(self, lst):
        for i in range(len(lst) - 1, 0, -1):
            j = self.below(i + 1)
            lst[i], lst[j] = lst[j], lst[i]
        return lst

    def sample(self, seq, k):
        lst = list(seq)
        self.shuffle(lst)
        return lst[:k]

    def bytes(self, n):
        if n <= 0:
            return b""
        return self.bits(8 * n).to_bytes(n, "little")

    def fork(self, label):
        return SeedStream(derive_seed(self.seed, "fork", 0, label))


# ----------------------------------------------------------------- pinned environment


def _disable_aslr():
    try:
        import ctypes

        libc = ctypes.CDLL(None, use_errno=True)
        ADDR_NO_RANDOMIZE = 0x0040000
        cur = libc.personality(0xFFFFFFFF)
        if cur == -1:
            return False
        if cur & ADDR_NO_RANDOMIZE:
            return True
        return libc.personality(cur | ADDR_NO_RANDOMIZE) != -1
    except Exception:
        return False


def pin_environment_and_reexec(argv=None):
    """Re-exec once with the pinned environment and ASLR disabled."""
    if os.environ.get(PIN_MARK) == "1":
        return
    env = dict(os.environ)
    env.update(PINNED_ENV)
    if os.environ.get("XDIS_VERIF_HASHSEED"):  # self-test only: prove independence from the hash seed
        env["PYTHONHASHSEED"] = os.environ["XDIS_VERIF_HASHSEED"]
    env[PIN_MARK] = "1"
    env["XDIS_VERIF_ASLR_OFF"] = "1" if _disable_aslr() else "0"
    pp = [REPO_DIR, VERIF_DIR]
    env["PYTHONPATH"] = os.pathsep.join(pp)
    args = [sys.executable, "-B", "-s"] + (["-O"] if sys.flags.optimize else []) + (argv if argv is not None else sys.argv)
    sys.stdout.flush()
    sys.stderr.flush()
    os.execve(sys.executable, args, env)


def child_env(extra=None):
    env = dict(os.environ)
    env.update(PINNED_ENV)
    if os.environ.get("XDIS_VERIF_HASHSEED"):
        env["PYTHONHASHSEED"] = os.environ["XDIS_VERIF_HASHSEED"]
    env[PIN_MARK] = "1"
    env["PYTHONPATH"] = os.pathsep.join([REPO_DIR, VERIF_DIR])
    if extra:
        env.update(extra)
    return env


def verify_xdis_origin():
    import xdis

    f = os.path.realpath(xdis.__file__)
    want = os.path.realpath(os.path.join(XDIS_DIR, "__init__.py"))
    if f != want:
        raise HarnessError("xdis imported from %s, expected %s" % (f, want))
    return f


class FixedHeadroom:
    """Give the code under test the same remaining recursion depth wherever the harness
    happens to call it from, so that the depth at which a nesting bomb hits RecursionError
    (and hence step counts and error texts) is a function of the input only.

    A change that the code under test itself makes to the recursion limit and leaves behind
    is *not* masked: it is carried over to the next call in the same process (LEAK), exactly
    as it would accumulate in a process that does not use this wrapper."""

    LEAK = 0

    def __init__(self, headroom=950):
        self.headroom = headroom
        self.saved = None
        self.set_to = None

    def __enter__(self):
        f = sys._getframe(1)
        n = 0
        while f is not None:
            n += 1
            f = f.f_back
        self.saved = sys.getrecursionlimit()
        self.set_to = n + self.headroom + FixedHeadroom.LEAK
        sys.setrecursionlimit(self.set_to)
        return self

    def __exit__(self, *a):
        cur = sys.getrecursionlimit()
        if cur != self.set_to:
            FixedHeadroom.LEAK += cur - self.set_to
            if FixedHeadroom.LEAK < -self.headroom + 50:
                FixedHeadroom.LEAK = -self.headroom + 50
        sys.setrecursionlimit(max(self.saved, 50))
        return False


# ------------------------------------------------------------------------- scratch

_SCRATCH = None


def scratch_dir():
    global _SCRATCH
    if _SCRATCH is None:
        root = os.environ.get("XDIS_VERIF_SCRATCH")
        if root and os.path.isdir(root):
            _SCRATCH = root
            return _SCRATCH
        base = "/dev/shm" if os.path.isdir("/dev/shm") and os.access("/dev/shm", os.W_OK) else (
            os.environ.get("TMPDIR") or "/tmp"
        )
        _SCRATCH = os.path.join(base, "xdis-verif-%d" % os.getpid())
        os.makedirs(_SCRATCH, exist_ok=True)
        os.environ["XDIS_VERIF_SCRATCH"] = _SCRATCH
        owner = os.getpid()

        def _cleanup():
            if os.getpid() == owner:
                shutil.rmtree(_SCRATCH, ignore_errors=True)

        atexit.register(_cleanup)

        def _sig(signum, frame):
            _cleanup()
            os._exit(128 + signum)

        for s in (signal.SIGTERM, signal.SIGINT, signal.SIGHUP):
            try:
                signal.signal(s, _sig)
            except Exception:
                pass
    return _SCRATCH


# ---------------------------------------------------------------------- fork_call


class ChildResult:
    __slots__ = ("status", "value", "signal", "exitcode", "faultlog", "wall")

    def __init__(self, status, value=None, sig=None, exitcode=None, faultlog="", wall=0.0):
        self.status = status  # "ok" | "signal" | "timeout" | "error"
        self.value = value
        self.signal = sig
        self.exitcode = exitcode
        self.faultlog = faultlog
        self.wall = wall

    def __repr__(self):
        return "ChildResult(%s sig=%s exit=%s)" % (self.status, self.signal, self.exitcode)


def _vm_size_bytes():
    try:
        with open("/proc/self/statm") as f:
            return int(f.read().split()[0]) * os.sysconf("SC_PAGE_SIZE")
    except Exception:
        return 512 * 1024 * 1024


def fork_call(fn, args=(), timeout=60.0, as_extra=1 << 30, faultlog_path=None, stream=False,
              on_record=None, quiet=False, cpu_limit=None):
    """Run fn(*args) in a fork of this process (the pristine zygote).

    The child returns a JSON-serialisable value through a pipe.  With stream=True the
    child is handed an ``emit(record)`` callable and each emitted record reaches
    on_record() in the parent as soon as it is written, so that the records produced
    before a crash survive the crash.

    A child that dies from a signal, or overruns the wall watchdog, is an *outcome*
    (status "signal" / "timeout"), never an exception here.
    """
    import resource

    rfd, wfd = os.pipe()
    sys.stdout.flush()
    sys.stderr.flush()
    t0 = time.time()
    pid = os.fork()
    if pid == 0:
        # ------------------------------------------------------------- child
        code = 0
        try:
            os.close(rfd)
            try:
                resource.setrlimit(resource.RLIMIT_CORE, (0, 0))
            except Exception:
                pass
            if cpu_limit:
                # CPU-time budget: unlike wall time it does not depend on how busy the machine is.  SIGXCPU
                # terminates the child; the parent sees the signal as an outcome.
                try:
                    used = int(time.process_time()) + 1
                    resource.setrlimit(resource.RLIMIT_CPU, (used + int(cpu_limit), used + int(cpu_limit) + 5))
                except Exception:
                    pass
            if as_extra:
                lim = _vm_size_bytes() + as_extra
                try:
                    resource.setrlimit(resource.RLIMIT_AS, (lim, lim))
                except Exception:
                    pass
            if quiet:
                # a child that is expected to die may be killed by Py_FatalError, which writes to fd 2
                dn = os.open(os.devnull, os.O_WRONLY)
                os.dup2(dn, 2)
            import faulthandler

            flog = None
            if faultlog_path:
                flog = open(faultlog_path, "w")
                faulthandler.enable(file=flog, all_threads=False)
                try:
                    faulthandler.register(signal.SIGXCPU, file=flog, all_threads=False, chain=True)
                except Exception:
                    pass
                faulthandler.dump_traceback_later(max(1.0, timeout - 0.5), repeat=False, file=flog)
            out = os.fdopen(wfd, "wb", buffering=0)

            def emit(rec):
                data = json.dumps(rec, separators=(",", ":")).encode("utf-8")
                out.write(b"%d\n" % len(data) + data + b"\n")

            if stream:
                val = fn(emit, *args)
            else:
                val = fn(*args)
            emit({"__final__": val})
        except BaseException:
            code = 70
            try:
                tb = traceback.format_exc()
                data = json.dumps({"__error__": tb}).encode("utf-8")
                os.write(wfd, b"%d\n" % len(data) + data + b"\n")
            except Exception:
                pass
        finally:
            os._exit(code)
    # ----------------------------------------------------------------- parent
    os.close(wfd)
    buf = bytearray()
    deadline = t0 + timeout
    timed_out = False
    final = None
    error = None

    def _drain():
        nonlocal final, error
        while True:
            nl = buf.find(b"\n")
            if nl < 0:
                return
            try:
                n = int(bytes(buf[:nl]))
            except ValueError:
                raise HarnessError("corrupt child stream")
            if len(buf) < nl + 1 + n + 1:
                return
            data = bytes(buf[nl + 1 : nl + 1 + n])
            del buf[: nl + 1 + n + 1]
            rec = json.loads(data.decode("utf-8"))
            if isinstance(rec, dict) and "__final__" in rec:
                final = rec
            elif isinstance(rec, dict) and "__error__" in rec:
                error = rec["__error__"]
            elif on_record is not None:
                on_record(rec)

    try:
        while True:
            left = deadline - time.time()
            if left <= 0:
                timed_out = True
                break
            r, _, _ = select.select([rfd], [], [], min(left, 1.0))
            if not r:
                continue
            try:
                chunk = os.read(rfd, 1 << 16)
            except OSError as e:
                if e.errno == errno.EINTR:
                    continue
                raise
            if not chunk:
                break
            buf += chunk
            _drain()
    finally:
        os.close(rfd)
    if timed_out:
        try:
            os.kill(pid, signal.SIGKILL)
        except OSError:
            pass
    _, st = os.waitpid(pid, 0)
    wall = time.time() - t0
    flog_text = ""
    if faultlog_path:
        try:
            with open(faultlog_path, "r", errors="replace") as f:
                flog_text = f.read()[-8000:]
        except Exception:
            pass
    if timed_out:
        return ChildResult("timeout", None, None, None, flog_text, wall)
    if os.WIFSIGNALED(st):
        return ChildResult("signal", None, os.WTERMSIG(st), None, flog_text, wall)
    ec = os.WEXITSTATUS(st)
    if error is not None or ec != 0 or final is None:
        return ChildResult("error", error or ("exit %d without result" % ec), None, ec, flog_text, wall)
    return ChildResult("ok", final["__final__"], None, 0, flog_text, wall)


# --------------------------------------------------------------------- run_sharded


def run_sharded(fn, shards, workers):
    """Apply fn(shard) to every shard on a fork-context process pool.

    Results come back in shard order.  The mapping shard -> result must be a pure
    function of the shard (callers guarantee this), so worker count cannot matter.
    """
    if workers <= 1 or len(shards) <= 1:
        return [fn(s) for s in shards]
    import multiprocessing
    from concurrent.futures import ProcessPoolExecutor

    ctx = multiprocessing.get_context("fork")
    results = [None] * len(shards)
    with ProcessPoolExecutor(max_workers=min(workers, len(shards)), mp_context=ctx) as ex:
        futs = {ex.submit(fn, s): k for k, s in enumerate(shards)}
        for fut, k in futs.items():
            try:
                results[k] = fut.result()
            except Exception as e:  # BrokenProcessPool etc.
                raise HarnessError("worker for shard %d failed: %r" % (k, e))
    return results


def default_workers():
    try:
        n = len(os.sched_getaffinity(0))
    except Exception:
        n = os.cpu_count() or 1
    w = os.environ.get("XDIS_VERIF_WORKERS")
    if w:
        return max(1, int(w))
    return max(1, min(16, n))


# ------------------------------------------------------------------------ evidence


def sha256_hex(b):
    return hashlib.sha256(b).hexdigest()


def b64(b):
    return base64.b64encode(b).decode("ascii")


def unb64(s):
    return base64.b64decode(s.encode("ascii"))


def write_json_atomic(path, obj):
    os.makedirs(os.path.dirname(path), exist_ok=True)
    tmp = path + ".tmp.%d" % os.getpid()
    with open(tmp, "w") as f:
        json.dump(obj, f, indent=1, sort_keys=True)
        f.write("\n")
    os.replace(tmp, path)


def write_evidence(prop, tier, seed, coverage, wall_s, violations, assumptions, extra=None):
    ev = {
        "property_id": prop,
        "tier": tier,
        "seed": int(seed),
        "level": "exploration",
        "coverage": coverage,
        "assumptions": assumptions,
        "wall_s": round(float(wall_s), 3),
        "violations": int(violations),
    }
    if extra:
        ev.update(extra)
    write_json_atomic(os.path.join(EVIDENCE_DIR, prop + ".json"), ev)
    return ev


def load_known_findings():
    if os.environ.get("XDIS_VERIF_NO_KNOWN") == "1":  # development aid: report everything
        return []
    try:
        with open(KNOWN_FINDINGS) as f:
            return json.load(f).get("findings", [])
    except FileNotFoundError:
        return []


def log(msg):
    sys.stderr.write(msg + "\n")
    sys.stderr.flush()


def host_pythons():
    """Interpreters able to import /repo's xdis, sorted by version: [(tag, exe)]."""
    found = {}
    root = os.path.expanduser("~/.pyenv/versions")
    try:
        names = sorted(os.listdir(root))
    except OSError:
        names = []
    for n in names:
        exe = os.path.join(root, n, "bin", "python")
        parts = n.split(".")
        try:
            v = tuple(int(x) for x in parts[:3])
        except ValueError:
            continue
        if v >= (3, 8) and os.access(exe, os.X_OK):
            found[v] = exe
    return [(".".join(str(x) for x in v), found[v]) for v in sorted(found)]


def producer_pythons():
    """Every interpreter usable as a .pyc producer: [(tag, exe)]."""
    out = []
    root = os.path.expanduser("~/.pyenv/versions")
    try:
        names = sorted(os.listdir(root))
    except OSError:
        names = []
    for n in names:
        exe = os.path.join(root, n, "bin", "python")
        try:
            v = tuple(int(x) for x in n.split(".")[:3])
        except ValueError:
            continue
        if os.access(exe, os.X_OK):
            out.append((v, exe))
    out.sort()
    return [(".".join(str(x) for x in v), exe) for v, exe in out]
