# C18 - each call's result is independent of what the process did before.
#
# Simulated world: one node = one process forked from a pristine zygote (`import xdis`
# and nothing else); a simulated disk of a few slots whose content changes over the
# history; a seeded sequence of public operations, some of which fail on corrupt files
# or are aborted by faults injected at their own I/O seams (the k-th write of the output
# stream raises EPIPE/ENOSPC/EIO, the k-th read of the file object raises EIO).
# Oracles: (1) refinement against the fresh-process model, operation by operation: the
# same call as the first thing done in its own fork of the zygote; (2) table immutability:
# the module-level tables of every xdis module equal the snapshot of a fresh process at
# the end of every history (localised to the culprit op on mismatch); (3) service after
# faults: every history ends with a compared fault-free op after its last fault.
#
# Python 3.8 syntax.

import errno
import io
import json
import os
import sys
import time

from sim import audit, canon, core, corpus, simdisk

PROP = "C18"
SIM_MTIME = 1700000000


def sim_mtime(sha):
    return SIM_MTIME + int(sha[:6], 16)
FORMATS = ["classic", "bytes", "extended", "extended-bytes", "xasm", "header"]
SMALL_MAX_CO = 1200
SMALL_TOTAL = 6000

W = {
    "bases": [], "info": [], "master": 0, "tier": "quick", "rundir": None, "snapshot": None,
    "versions": [], "imports": [], "host_magic": None, "magics": [], "have_click": False,
    "small": [], "loadable": [], "faultable": [], "max_len": 12, "readmaps": {},
}

# ------------------------------------------------------------------------------- pools

MARSH_VALUES = [
    None, True, False, 0, 1, -1, 255, 65536, 2 ** 31 - 1, -(2 ** 31), 2 ** 31, 2 ** 65, -(2 ** 70), 1.5, -0.0,
    float("inf"), 3 + 4j, "abc", "", "\xe9", "€\U0001f600", b"abc", b"", b"\x00\xff", (1, 2), (), [1, "a"],
    {"a": 1}, {1, 2}, frozenset([3]), Ellipsis, StopIteration, (1, (2, (3, [4, {"k": (5,)}]))), [None] * 300,
]
MARSH_PYVERS = [None, (2, 7), (3, 3), (3, 8)]


def _marsh_bytes_pool():
    import marshal

    out = []
    for v in MARSH_VALUES:
        for ver in (0, 1, 2):
            try:
                out.append(marshal.dumps(v, ver))
            except Exception:
                pass
    out += [b"", b"?", b"i\x01\x00", b"(\xff\xff\xff\x7f", b"l\xff\xff\xff\x7f", b"{0", b"R\x00\x00\x00\x00",
            b"s\x05\x00\x00\x00ab", b"[\x02\x00\x00\x00i\x01\x00\x00\x00N"]
    # marshal strings holding a code object: payloads of the two smallest 2.5-2.7 files of the repo corpus
    try:
        import glob

        cands = []
        for d in ("bytecode_2.5", "bytecode_2.6", "bytecode_2.7"):
            for pth in sorted(glob.glob(os.path.join(core.REPO_DIR, "test", d, "*.pyc"))):
                cands.append((os.path.getsize(pth), pth))
        cands.sort()
        for _, pth in cands[:3]:
            with open(pth, "rb") as f:
                out.append(f.read()[8:])
    except Exception:
        pass
    # dedupe, keep order
    seen = set()
    res = []
    for b in out:
        if b not in seen:
            seen.add(b)
            res.append(b)
    return res


MARSH_BYTES = _marsh_bytes_pool()

# ------------------------------------------------------------------------- preparation


def _info_child(lo, hi):
    from xdis.codetype.base import iscode
    from xdis.load import load_module

    out = []
    old = sys.stderr
    sys.stderr = corpus.Sink()
    try:
        for k in range(lo, hi):
            b = W["bases"][k]
            d = os.path.join(W["rundir"], "info-%d" % os.getpid())
            os.makedirs(d, exist_ok=True)
            p = os.path.join(d, b.name)
            with open(p, "wb") as f:
                f.write(b.data)
            try:
                version, ts, magic_int, co, is_pypy, size, sip = load_module(p)
                mx = 0
                tot = 0
                n = 0
                stack = [co]
                while stack:
                    c = stack.pop()
                    if not iscode(c):
                        continue
                    n += 1
                    ln = len(c.co_code)
                    mx = max(mx, ln)
                    tot += ln
                    for x in c.co_consts:
                        if iscode(x):
                            stack.append(x)
                out.append({"ok": True, "version": list(version[:2]), "is_pypy": bool(is_pypy), "max": mx,
                            "total": tot, "n": n, "magic": int(magic_int)})
            except BaseException as e:
                out.append({"ok": False, "err": type(e).__name__})
            try:
                os.unlink(p)
            except OSError:
                pass
    finally:
        sys.stderr = old
    return out


def _info_job(c):
    r = core.fork_call(_info_child, c, timeout=600)
    if r.status != "ok":
        raise core.HarnessError("info child failed: %r %s" % (r, r.value))
    return r.value


def _world_child():
    """facts about the tree under test, gathered in a throw-away fork"""
    import importlib
    import pkgutil

    import xdis
    import xdis.magics as m
    from xdis.op_imports import op_imports

    versions = sorted(k for k in op_imports.keys() if isinstance(k, str))
    mods = []
    for mi in pkgutil.walk_packages(xdis.__path__, "xdis."):
        mods.append(mi.name)
    have_click = True
    try:
        import click  # noqa: F401
    except Exception:
        have_click = False
    importable = []
    for name in sorted(mods):
        if name.endswith("__main__"):
            continue
        try:
            importlib.import_module(name)
            importable.append(name)
        except BaseException:
            pass
    snap = canon.process_tables()
    return {"versions": versions, "imports": importable, "snapshot": snap, "host_magic": int(m.PYTHON_MAGIC_INT),
            "magics": sorted(int(k) for k in m.magicint2version), "have_click": have_click}


def _zygote_tables_child():
    return canon.process_tables()


def prepare(master, tier, extra_bases=None):
    core.verify_xdis_origin()
    W["master"] = master
    W["tier"] = tier
    bases = corpus.repo_corpus() + list(extra_bases or [])
    bases.sort(key=lambda b: (b.origin, b.path))
    W["bases"] = bases
    W["rundir"] = os.path.join(core.scratch_dir(), "c18")
    os.makedirs(W["rundir"], exist_ok=True)
    r = core.fork_call(_world_child, timeout=300)
    if r.status != "ok":
        raise core.HarnessError("world child failed: %r %s" % (r, r.value))
    for k in ("versions", "imports", "snapshot", "host_magic", "magics", "have_click"):
        W[k] = r.value[k]
    n = len(bases)
    step = max(1, (n + 15) // 16)
    chunks = [(lo, min(n, lo + step)) for lo in range(0, n, step)]
    info = []
    for part in core.run_sharded(_info_job, chunks, core.default_workers()):
        info.extend(part)
    W["info"] = info
    W["loadable"] = [k for k, x in enumerate(info) if x.get("ok")]
    W["small"] = [k for k in W["loadable"] if info[k]["max"] <= SMALL_MAX_CO and info[k]["total"] <= SMALL_TOTAL]
    W["faultable"] = [k for k in range(n) if bases[k].magic_int != W["host_magic"]]
    W["max_len"] = 12 if tier == "quick" else 40
    W.setdefault("chain_from", None)
    # the zygote's own tables must already equal the all-imported snapshot on the shared modules
    z = core.fork_call(_zygote_tables_child, timeout=120)
    if z.status != "ok":
        raise core.HarnessError("zygote table child failed")
    W["zygote_tables"] = z.value
    # baseline for the table invariant: the state of a fresh `import xdis` process (the zygote) for every module
    # loaded there; for modules that are only imported later, their state right after import (all-imported child)
    W["all_imported_tables"] = W["snapshot"]
    base = dict(W["snapshot"])
    base.update(z.value)
    W["snapshot"] = base


# ------------------------------------------------------------------------------- plans


def slot_name(slot, base_name):
    if base_name.endswith("pypy38.pyc"):
        return "slot%d.pypy38.pyc" % slot
    if base_name.endswith(".pyo"):
        return "slot%d.pyo" % slot
    return "slot%d.pyc" % slot


class History:
    __slots__ = ("index", "seed", "ops", "images", "faulty", "observations")

    def key(self):
        return canon.digest(self.ops)


COMPARED = ("load", "load_fo", "dis", "cli", "opc", "opmod", "std", "mdumps", "mloads", "rewrite", "lineoffs",
            "info", "stdv", "stdheld")
FAULT_OPS = ("dis_abort", "load_abort")
SLOT_OPS = ("load", "load_fo", "dis", "cli", "std", "dis_abort", "load_abort", "rewrite", "lineoffs", "info",
            "stdhold", "stdheld")


def plan_chain(i, seed, rng):
    """Long-chain history: many files loaded / listed one after the other in one process.  A chain of L
    operations exercises L(L-1)/2 ordered pairs (earlier file, later file) at the cost of L operations:
    the cheapest way to expose first-writer-wins state (memo tables, intern pools, per-version caches)."""
    h = History()
    h.index, h.seed, h.images, h.observations, h.faulty = i, seed, {}, [], False
    bases = W["bases"]
    style = rng.weighted([("load", 2), ("dis", 3), ("mixed", 1)])
    if style == "load":
        pool = list(W["loadable"])
        n = min(len(pool), rng.between(150, 320))
    else:
        pool = list(W["small"])
        n = min(len(pool), rng.between(60, 130))
    files = rng.sample(pool, n)
    # every chain also contains all PyPy files small enough, at random positions (variants are the rare siblings)
    if style != "load":
        pyp = [k for k in W["small"] if W["info"][k].get("is_pypy") and k not in files]
        for k in rng.sample(pyp, min(len(pyp), 12)):
            files.insert(rng.below(len(files) + 1), k)
    ops = []
    nslots = rng.choice([1, 2, 3])
    for n_, bi in enumerate(files):
        base = bases[bi]
        slot = n_ % nslots
        sha = base.sha
        h.images[sha] = base.data
        name = slot_name(slot, base.name)
        ops.append(["install", slot, sha, name])
        if style == "load":
            kind = "load" if rng.chance(5, 6) else "load_fo"
        elif style == "dis":
            kind = "dis"
        else:
            kind = rng.weighted([("load", 2), ("dis", 3), ("std", 1)])
            if kind != "load" and bi not in _small_set():
                kind = "load"
        if kind == "load":
            ops.append(["load", slot, sha, name, True, False])
        elif kind == "load_fo":
            ops.append(["load_fo", slot, sha, name])
        elif kind == "std":
            ops.append(["std", slot, sha, name])
        else:
            ops.append(["dis", slot, sha, name, rng.choice(FORMATS)])
    h.ops = ops
    return h


def plan_history(i):
    seed = core.derive_seed(W["master"], PROP, i)
    rng = core.SeedStream(seed)
    if W.get("chain_from") is not None and i >= W["chain_from"]:
        return plan_chain(i, seed, rng)
    h = History()
    h.index = i
    h.seed = seed
    h.images = {}
    h.observations = []
    h.faulty = rng.chance(3, 5)
    nslots = rng.between(2, 4)
    length = rng.between(2, W["max_len"]) if rng.chance(3, 4) else rng.between(2, 5)
    bases = W["bases"]
    slots = {}  # slot -> dict(sha, name, small, loadable, faulted)
    handles = {}  # API objects kept alive across operations: handle -> (slot, sha, name) they were made for
    ops = []

    def install(slot, want_small):
        pool = W["small"] if want_small else (W["loadable"] if rng.chance(3, 4) else list(range(len(bases))))
        bi = rng.choice(pool)
        # collision bias: state keyed by version / magic / path is exposed by a *sibling* of a file already
        # on the disk - same version but other variant (PyPy vs CPython), or same magic but other content
        if slots and rng.chance(1, 3):
            other = slots[rng.choice(sorted(slots))]
            sib = _twins(other["bi"], want_small) if rng.chance(1, 3) else []
            if not sib:
                sib = _siblings(other["bi"], want_small)
            if sib:
                bi = rng.choice(sib)
        base = bases[bi]
        img = base.data
        faulted = False
        if h.faulty and rng.chance(1, 5) and bi in _faultable_set():
            others = [bases[rng.below(len(bases))].data]
            ctx = simdisk.FaultCtx(base.data, others, [], W["magics"])
            img2, fired = simdisk.apply_fault_sequence(rng, ctx, simdisk.FAULT_KINDS, 2)
            if fired and len(img2) >= 2 and int.from_bytes(img2[:2], "little") != W["host_magic"]:
                img = img2
                faulted = True
        if not faulted and rng.chance(1, 12) and len(img) > 8:
            # the same payload stored under another known magic number (an interim release, a sibling of the same
            # release, another implementation): not a fault - files like this exist - but whatever the loader makes
            # of it, it must make the same of it every time
            m = rng.choice(W["magics"])
            if m != W["host_magic"] and m != base.magic_int:
                img = int(m & 0xFFFF).to_bytes(2, "little") + img[2:]
                faulted = True
        sha = core.sha256_hex(img)
        h.images[sha] = img
        name = slot_name(slot, base.name)
        small = (bi in _small_set()) and not faulted
        slots[slot] = {"sha": sha, "name": name, "small": small, "faulted": faulted, "bi": bi}
        ops.append(["install", slot, sha, name])

    def _install_exact(slot, bi):
        base = bases[bi]
        sha = base.sha
        h.images[sha] = base.data
        name = slot_name(slot, base.name)
        slots[slot] = {"sha": sha, "name": name, "small": bi in _small_set(), "faulted": False, "bi": bi}
        ops.append(["install", slot, sha, name])

    kinds_all = [("load", 10), ("load_fo", 3), ("dis", 14), ("opc", 5), ("opmod", 3), ("std", 5), ("mdumps", 3),
                 ("mloads", 3), ("import", 3), ("install", 8), ("rewrite", 3), ("lineoffs", 2), ("info", 2), ("stdv", 3),
                 ("stdhold", 4), ("stdheld", 7)]
    if W["have_click"]:
        kinds_all.append(("cli", 3))
    if h.faulty:
        kinds_all += [("dis_abort", 10), ("load_abort", 4)]
    # swarm: each run uses a random subset of op kinds (always keeps load+dis)
    kinds = [kw for kw in kinds_all if kw[0] in ("load", "dis", "install") or rng.chance(3, 4)]
    install(rng.below(nslots), rng.chance(2, 3))
    while len(ops) < length:
        kind = rng.weighted(kinds)
        if kind == "install":
            install(rng.below(nslots), rng.chance(2, 3))
            continue
        if kind == "stdheld":
            live = [hd for hd in sorted(handles) if slots.get(handles[hd][0], {}).get("sha") == handles[hd][1]]
            if not live:
                kind = "stdhold"
            else:
                hd = rng.choice(live)
                s_, sha_, name_ = handles[hd]
                ops.append(["stdheld", s_, sha_, name_, hd])
                continue
        if kind in ("load", "load_fo", "dis", "cli", "std", "dis_abort", "load_abort", "rewrite", "lineoffs", "info",
                    "stdhold"):
            need_small = kind in ("dis", "cli", "std", "dis_abort", "rewrite", "lineoffs", "info", "stdhold")
            cands = [s for s in sorted(slots) if (slots[s]["small"] or slots[s]["faulted"] or not need_small)]
            if not cands:
                install(rng.below(nslots), True)
                continue
            s = rng.choice(cands)
            st = slots[s]
            if kind == "load":
                ops.append(["load", s, st["sha"], st["name"], not rng.chance(1, 8), rng.chance(1, 8)])
            elif kind == "load_fo":
                ops.append(["load_fo", s, st["sha"], st["name"]])
            elif kind == "dis":
                ops.append(["dis", s, st["sha"], st["name"], rng.choice(FORMATS)])
            elif kind == "cli":
                ops.append(["cli", s, st["sha"], st["name"], rng.choice(FORMATS)])
            elif kind == "std":
                ops.append(["std", s, st["sha"], st["name"]])
            elif kind in ("rewrite", "lineoffs", "info"):
                ops.append([kind, s, st["sha"], st["name"]])
            elif kind == "stdhold":
                hd = rng.below(3)
                handles[hd] = (s, st["sha"], st["name"])
                ops.append(["stdhold", s, st["sha"], st["name"], hd])
            elif kind == "dis_abort":
                # small listings make 6-20 writes: the header takes the first 3-5, then two per code object;
                # most faults should land after something has been registered and before the end
                k = rng.choice([1, 2, 4, 5, 6, 7, 8, 9, 10, 11, 12, 14, 16, 19, 23, 30, rng.between(1, 60)])
                fmt = rng.choice(FORMATS + ["xasm", "extended"])
                ops.append(["dis_abort", s, st["sha"], st["name"], fmt, k,
                            rng.choice(["EPIPE", "ENOSPC", "EIO", "CLOSED"])])
                if rng.chance(2, 3):
                    # probe the subsystem the fault just interrupted: the same format, on a sibling of the file
                    # (same release, often the same program compiled by another producer: same function names)
                    s2 = (s + 1) % nslots
                    sib = _twins(st["bi"], True) if rng.chance(2, 3) else []
                    if not sib:
                        sib = _siblings(st["bi"], True)
                    if sib and rng.chance(4, 5):
                        _install_exact(s2, rng.choice(sib))
                        st2 = slots[s2]
                        ops.append(["dis", s2, st2["sha"], st2["name"], fmt])
                    else:
                        ops.append(["dis", s, st["sha"], st["name"], fmt])
            else:
                k = rng.choice([1, 2, 3, 4, 5, 6, 8, 12, 20, rng.between(1, 80)])
                ops.append(["load_abort", s, st["sha"], st["name"], k])
                if rng.chance(1, 2):
                    s2 = (s + 1) % nslots
                    same_magic = [k2 for k2 in _siblings(st["bi"], False)
                                  if bases[k2].magic_int == bases[st["bi"]].magic_int]
                    if same_magic:
                        _install_exact(s2, rng.choice(same_magic))
                        st2 = slots[s2]
                        ops.append(["load", s2, st2["sha"], st2["name"], True, False])
        elif kind == "stdv":
            # an API object for a version given as a tuple, incl. patch levels the tables do not list
            v = rng.choice(W["versions"])
            pypy = v.endswith("pypy")
            import re as _re

            m_ = _re.match(r"(\d+)\.(\d+)", v)
            parts = [int(m_.group(1)), int(m_.group(2))] if m_ else [3, 8]
            if rng.chance(1, 2):
                parts.append(rng.choice([0, 1, 7, 11, 17, 23, 99]))
            ops.append(["stdv", ".".join(str(x) for x in parts), "pypy" if pypy else None])
        elif kind == "opc":
            if rng.chance(1, 10):
                ops.append(["opc", rng.choice(["3.14", "2.8", "0.9", "3.8"]), True if rng.chance(1, 2) else False])
            else:
                v = rng.choice(W["versions"])
                pypy = v.endswith("pypy")
                ops.append(["opc", v[:-4] if pypy else v, pypy])
        elif kind == "opmod":
            v = rng.choice(W["versions"])
            pypy = v.endswith("pypy")
            vs = v[:-4] if pypy else v
            ops.append(["opmod", vs, "pypy" if pypy else None, rng.choice(["tuple", "tuple", "float"])])
        elif kind == "mdumps":
            ops.append(["mdumps", rng.below(len(MARSH_VALUES)), rng.below(len(MARSH_PYVERS))])
        elif kind == "mloads":
            ops.append(["mloads", rng.below(len(MARSH_BYTES))])
        elif kind == "import":
            ops.append(["import", rng.choice(W["imports"])])
    # bounded liveness: after the last fault op there is at least one compared fault-free op
    last_fault = max([j for j, o in enumerate(ops) if o[0] in FAULT_OPS] + [-1])
    tail_ok = any(o[0] in COMPARED for o in ops[last_fault + 1:])
    if not tail_ok:
        cands = [s for s in sorted(slots) if slots[s]["small"]]
        if cands:
            s = rng.choice(cands)
            ops.append(["dis", s, slots[s]["sha"], slots[s]["name"], rng.choice(FORMATS)])
        else:
            s = rng.choice(sorted(slots))
            ops.append(["load", s, slots[s]["sha"], slots[s]["name"], True, False])
    h.ops = ops
    return h


_SETS = {}


def _stem(name):
    """program identity of a corpus file name: '015_00_chained-compare.ts.pyc' -> '00_chained-compare'"""
    import re

    n = name
    for suf in (".pypy38.pyc", ".pyc", ".pyo"):
        if n.endswith(suf):
            n = n[: -len(suf)]
            break
    n = re.sub(r"\.(ts|ch|uh|alt)$", "", n)
    n = re.sub(r"^\d{3}_", "", n)
    n = re.sub(r"\.py$", "", n)
    return n


def _twins(bi, want_small):
    """other files holding the SAME PROGRAM (compiled by another producer / release / invalidation mode): same
    function names, same constants - what name-keyed or content-keyed state collides on"""
    if "by_stem" not in _SETS:
        bys = {}
        for k in W["loadable"]:
            bys.setdefault(_stem(W["bases"][k].name), []).append(k)
        _SETS["by_stem"] = bys
    tw = [k for k in _SETS["by_stem"].get(_stem(W["bases"][bi].name), []) if k != bi]
    if want_small:
        small = _small_set()
        tw = [k for k in tw if k in small]
    return tw


def _siblings(bi, want_small):
    """loadable files with the same (major, minor) version as file bi, PyPy variants included"""
    if "by_version" not in _SETS:
        byv = {}
        for k in W["loadable"]:
            byv.setdefault(tuple(W["info"][k]["version"]), []).append(k)
        _SETS["by_version"] = byv
    info = W["info"][bi]
    if not info.get("ok"):
        return []
    sib = [k for k in _SETS["by_version"].get(tuple(info["version"]), []) if k != bi]
    if want_small:
        small = _small_set()
        sib = [k for k in sib if k in small]
    # variants first: a file whose PyPy flag differs is the rarest sibling, so give it half of the draws
    diff = [k for k in sib if W["info"][k].get("is_pypy") != info.get("is_pypy")]
    return diff * 1 + sib if not diff else diff * max(1, len(sib) // max(1, len(diff))) + sib


def _small_set():
    if "small" not in _SETS:
        _SETS["small"] = set(W["small"])
    return _SETS["small"]


def _faultable_set():
    if "faultable" not in _SETS:
        _SETS["faultable"] = set(W["faultable"])
    return _SETS["faultable"]


# --------------------------------------------------------------------------- execution


class FailingWriter:
    """output stream whose k-th write raises OSError(errno)"""

    def __init__(self, k, err):
        self.k = k
        self.err = err
        self.n = 0
        self.buf = []

    def write(self, s):
        self.n += 1
        if self.n >= self.k:
            if self.err == "CLOSED":
                raise ValueError("I/O operation on closed file.")
            raise OSError(self.err, os.strerror(self.err))
        self.buf.append(s)
        return len(s)

    def flush(self):
        pass


class FailingReader:
    """file object whose k-th read raises OSError(EIO)"""

    def __init__(self, f, k):
        self.f = f
        self.k = k
        self.n = 0

    def read(self, *a):
        self.n += 1
        if self.n >= self.k:
            raise OSError(errno.EIO, os.strerror(errno.EIO))
        return self.f.read(*a)

    def seek(self, *a):
        return self.f.seek(*a)

    def tell(self):
        return self.f.tell()

    def close(self):
        return self.f.close()


def _vt(s):
    return tuple(int(x) for x in s.split("."))


HELD = {}


def _api_fingerprint(api):
    return {"opc": _mod_fingerprint(api.opc), "version": canon._canon_table_value(api.python_version_tuple),
            "tables": canon.digest([canon._canon_table_value(api.opmap), canon._canon_table_value(api.opname),
                                    canon._canon_table_value(api.hasconst), canon._canon_table_value(api.hasname),
                                    api.EXTENDED_ARG, api.HAVE_ARGUMENT])}


def _mod_fingerprint(mod):
    return [getattr(mod, "__name__", "?"), canon.digest(canon.module_state(mod))]


def _do_op(op, detail):
    """executes one operation; returns {"ret":..., "text":..., "stdout":...} (canonical, JSON-able)"""
    kind = op[0]
    res = {"ret": None, "text": None}
    if kind == "load":
        from xdis.load import load_module

        _, slot, sha, name, get_code, fast_load = op
        res["ret"] = canon.canon_load_result(load_module(name, fast_load=fast_load, get_code=get_code))
    elif kind == "load_fo":
        from xdis.load import load_module_from_file_object

        name = op[3]
        res["ret"] = canon.canon_load_result(load_module_from_file_object(open(name, "rb"), filename=name))
    elif kind == "dis":
        from xdis.disasm import disassemble_file

        name, fmt = op[3], op[4]
        out = io.StringIO()
        try:
            r = disassemble_file(name, out, fmt)
            res["ret"] = canon.canon_dis_result(r)
        finally:
            res["text"] = out.getvalue()
    elif kind == "cli":
        from xdis.bin.pydisasm import main as cli_main

        name, fmt = op[3], op[4]
        try:
            r = cli_main.main(args=["-F", fmt, name], standalone_mode=False)
            res["ret"] = ["exit", repr(r)]
        except SystemExit as e:
            res["ret"] = ["SystemExit", repr(e.code)]
    elif kind == "opc":
        from xdis.disasm import get_opcode

        mod = get_opcode(_vt(op[1]), op[2])
        res["ret"] = _mod_fingerprint(mod)
    elif kind == "opmod":
        from xdis.op_imports import get_opcode_module

        vt = _vt(op[1])
        arg = vt if op[3] == "tuple" else float(op[1]) if op[1].count(".") == 1 and len(op[1].split(".")[1]) == 1 else vt
        mod = get_opcode_module(arg, op[2])
        res["ret"] = _mod_fingerprint(mod)
    elif kind == "std":
        from xdis.load import load_module
        from xdis.std import make_std_api

        name = op[3]
        version, ts, magic_int, co, is_pypy, size, sip = load_module(name)
        ver = tuple(version[:2])
        api = make_std_api(ver, "pypy" if is_pypy else None)
        d = {"opc": _mod_fingerprint(api.opc), "tables": canon.digest([
            canon._canon_table_value(api.opmap), canon._canon_table_value(api.opname),
            canon._canon_table_value(api.hasconst), canon._canon_table_value(api.hasname), api.EXTENDED_ARG,
            api.HAVE_ARGUMENT])}
        # the informational entry points first (they must not depend on whether instruction decoding works)
        out = io.StringIO()
        try:
            api.show_code(co, file=out)
            api.show_code(co)  # the stdout flavour takes another path through cross_dis (is_pypy is passed on)
            info = api.code_info(co)
        except Exception as e:
            info = "raised %s" % type(e).__name__
        res["text"] = out.getvalue() + "\n" + str(info) + "\n" + str(api.pretty_flags(getattr(co, "co_flags", 0)))
        ins = []
        for x in api.get_instructions(co):
            ins.append([canon.canon_value(f, ver) for f in (x.offset, x.opcode, x.opname, x.arg, x.argval, x.argrepr,
                                                              x.is_jump_target, x.starts_line)])
        d["instructions"] = ins
        d["labels"] = canon.canon_value(list(api.findlabels(co)), ver)
        d["linestarts"] = canon.canon_value([tuple(p) for p in api.findlinestarts(co)], ver)
        se = []
        for opname in sorted(api.opmap)[:40]:
            try:
                se.append([opname, api.stack_effect(api.opmap[opname], 1)])
            except Exception as e:
                se.append([opname, type(e).__name__])
        d["stack_effects"] = se
        res["ret"] = ["std", d]
    elif kind == "lineoffs":
        from xdis.lineoffsets import lineoffsets_in_file

        info = lineoffsets_in_file(op[3])
        res["ret"] = ["lineoffsets", canon.canon_value(sorted(info.line_numbers(include_offsets=True).items())
                                                      if isinstance(info.line_numbers(include_offsets=True), dict)
                                                      else info.line_numbers(include_offsets=True), (3, 8)),
                      canon.canon_value(sorted(info.lines.items()) if isinstance(getattr(info, "lines", None), dict)
                                        else repr(type(getattr(info, "lines", None))), (3, 8))]
        res["text"] = str(info)
    elif kind == "info":
        from xdis.bytecode import Bytecode
        from xdis.cross_dis import code_info, findlabels, findlinestarts
        from xdis.disasm import get_opcode
        from xdis.load import load_module

        version, ts, magic_int, co, is_pypy, size, sip = load_module(op[3])
        opc = get_opcode(version, is_pypy)
        bc = Bytecode(co, opc)
        res["text"] = bc.info() + "\n" + bc.dis() + "\n" + code_info(co, version)
        res["ret"] = ["info", canon.canon_value(sorted(findlabels(co.co_code, opc)), (3, 8)),
                      canon.canon_value([tuple(p) for p in findlinestarts(co)], (3, 8))]
    elif kind == "rewrite":
        from xdis.load import load_module, write_bytecode_file

        name = op[3]
        version, ts, magic_int, co, is_pypy, size, sip = load_module(name)
        tmp = "rewritten.pyc"
        try:
            write_bytecode_file(tmp, co, magic_int, compilation_ts=1700000001, filesize=size or 0)
            # only the content read back is compared, not the raw bytes: for a native code object the writer
            # calls CPython's marshal.dumps, whose FLAG_REF bits depend on reference counts in the process
            res["ret"] = ["rewritten", canon.canon_load_result(load_module(tmp))]
        finally:
            try:
                os.unlink(tmp)
            except OSError:
                pass
    elif kind == "stdv":
        from xdis.std import make_std_api

        api = make_std_api(_vt(op[1]), op[2])
        res["ret"] = ["stdv", _api_fingerprint(api)]
    elif kind == "stdhold":
        from xdis.load import load_module
        from xdis.std import make_std_api

        HELD.pop(op[4], None)  # the handle is re-bound: whatever it held before is gone, also if this call fails
        version, ts, magic_int, co, is_pypy, size, sip = load_module(op[3])
        HELD[op[4]] = make_std_api(tuple(version[:2]), "pypy" if is_pypy else None)
        res["ret"] = ["held"]
    elif kind == "stdheld":
        from xdis.load import load_module

        api = HELD.get(op[4])
        if api is None:
            # the stdhold that should have made it failed (corrupt slot): same answer in a history and in the reference
            res["ret"] = ["no-api-held"]
            return res
        version, ts, magic_int, co, is_pypy, size, sip = load_module(op[3])
        ver = tuple(version[:2])
        ins = [[canon.canon_value(f, ver) for f in (x.offset, x.opcode, x.opname, x.arg, x.argval, x.argrepr,
                                                    x.is_jump_target, x.starts_line)]
               for x in api.get_instructions(co)]
        out = io.StringIO()
        api.dis(co, file=out)
        res["ret"] = ["stdheld", _api_fingerprint(api), ins]
        res["text"] = out.getvalue()
    elif kind == "mdumps":
        import xdis.marsh

        v = MARSH_VALUES[op[1]]
        pv = MARSH_PYVERS[op[2]]
        if pv is None:
            b = xdis.marsh.dumps(v)
        else:
            b = xdis.marsh.dumps(v, python_version=pv)
        res["ret"] = canon.canon_value(b, (3, 8))
    elif kind == "mloads":
        import xdis.marsh

        res["ret"] = canon.canon_value(xdis.marsh.loads(MARSH_BYTES[op[1]]), (3, 8))
    elif kind == "import":
        import importlib

        importlib.import_module(op[1])
        res["ret"] = ["imported"]
    elif kind == "dis_abort":
        from xdis.disasm import disassemble_file

        name, fmt, k, en = op[3], op[4], op[5], op[6]
        w = FailingWriter(k, "CLOSED" if en == "CLOSED" else getattr(errno, en))
        try:
            disassemble_file(name, w, fmt)
        finally:
            FIRED[0] = w.n >= w.k
        res["ret"] = ["completed-without-reaching-fault", w.n]
    elif kind == "load_abort":
        from xdis.load import load_module_from_file_object

        name, k = op[3], op[4]
        fr = FailingReader(open(name, "rb"), k)
        try:
            load_module_from_file_object(fr, filename=name)
        finally:
            FIRED[0] = fr.n >= fr.k
        res["ret"] = ["completed-without-reaching-fault", fr.n]
    else:
        raise core.HarnessError("unknown op %r" % (op,))
    return res


FIRED = [False]


def _trampoline(op, detail):
    # every op, in a history and in its reference, is entered with the same recursion headroom
    with core.FixedHeadroom():
        return _do_op(op, detail)


def _nonjson(o):
    return ["nonjson", type(o).__name__, repr(o)]


class _Streams:
    """The process-wide stdout/stderr of one simulated node.  Installed once per history (and once per
    reference run), not per operation: an operation that leaves sys.stdout / sys.stderr swapped behind it is
    therefore not repaired by the harness and shows in the interpreter state of the following operations."""

    def __init__(self):
        self.out = io.StringIO()
        self.err = corpus.Sink()
        self.saved = None
        self.base = {}

    def install(self):
        self.saved = (sys.stdout, sys.stderr)
        sys.stdout, sys.stderr = self.out, self.err
        self.base = _raw_interp()

    def uninstall(self):
        sys.stdout, sys.stderr = self.saved

    def take(self):
        v = self.out.getvalue()
        self.out.seek(0)
        self.out.truncate(0)
        return v


STREAMS = [None]


def _raw_interp():
    import signal

    try:
        cwd = os.getcwd()
    except OSError:
        cwd = "<gone>"
    try:
        nfds = len(os.listdir("/proc/self/fd")) - 1  # minus the descriptor of this listing itself
    except OSError:
        nfds = -1
    return {"cwd": cwd, "open_descriptors": nfds, "trace": sys.gettrace(), "profile": sys.getprofile(),
            "sigint": signal.getsignal(signal.SIGINT), "sigpipe": signal.getsignal(signal.SIGPIPE),
            "sys_path_len": len(sys.path), "umask": _umask(), "dont_write_bytecode": sys.dont_write_bytecode,
            "excepthook": sys.excepthook, "displayhook": sys.displayhook,
            "switchinterval": sys.getswitchinterval()}


def interp_state():
    """interpreter-wide settings that a public call has no business changing, each reported as
    "unchanged since this node started" (so that the value itself, which differs between a fork of the
    zygote and a fresh interpreter, never enters a digest)"""
    st = STREAMS[0]
    base = st.base if st is not None else {}
    cur = _raw_interp()
    out = {"stdout_is_node_stream": st is None or sys.stdout is st.out,
           "stderr_is_node_stream": st is None or sys.stderr is st.err,
           "recursion_limit_unchanged": core.FixedHeadroom.LEAK == 0}
    for k in sorted(cur):
        out[k + "_unchanged"] = (k not in base) or (cur[k] is base[k]) or (cur[k] == base[k])
    return out


def _umask():
    m = os.umask(0o22)
    os.umask(m)
    return m


def exec_op(op, detail=False):
    """Returns record: {"d": digest, "c": {component: digest}, "x": exception class|None, ["full": ...]}"""
    own = STREAMS[0] is None
    if own:
        STREAMS[0] = _Streams()
        STREAMS[0].install()
    st = STREAMS[0]
    st.take()
    comp = {}
    exc = None
    res = {"ret": None, "text": None}
    FIRED[0] = False
    pre = interp_state()
    try:
        try:
            res = _trampoline(op, detail)
        except core.HarnessError:
            raise
        except Exception as e:
            exc = type(e).__name__
            res = {"ret": canon.canon_exception(e), "text": None}
        except SystemExit as e:
            exc = "SystemExit"
            res = {"ret": ["SystemExit", repr(e.code)], "text": None}
    finally:
        post = interp_state()
        res["stdout"] = st.take()
        if own:
            st.uninstall()
            STREAMS[0] = None
    res["interp"] = {"before": pre, "after": post}
    full = {}
    for k in ("ret", "text", "stdout", "interp"):
        v = res.get(k)
        if v is None:
            continue
        js = canon.norm_text(json.dumps(v, sort_keys=True, default=_nonjson))
        comp[k] = canon.digest(js)
        if detail:
            full[k] = js
    rec = {"d": canon.digest(comp), "c": comp, "x": exc}
    if FIRED[0]:
        rec["fired"] = True
    if detail:
        rec["full"] = full
    return rec


def _history_child(emit, ops, images, detail, tables_every_op, tables_at_end=True):
    """Runs in a fork of the zygote.  cwd = private run directory; slots are relative paths."""
    d = os.path.join(W["rundir"], "h-%d" % os.getpid())
    os.makedirs(d, exist_ok=True)
    os.chdir(d)
    STREAMS[0] = _Streams()
    STREAMS[0].install()
    try:
        for j, op in enumerate(ops):
            if op[0] == "install":
                _, slot, sha, name = op
                # a slot is one storage location: its older names go away
                for n in os.listdir("."):
                    if n.startswith("slot%d." % slot):
                        os.unlink(n)
                with open(name, "wb") as f:
                    f.write(images[sha])
                # the simulated disk owns file metadata too: disassemble_file's source fallback reports
                # st_mtime, which must not depend on when the simulator happened to write the slot
                # (a function of the content, so that a re-installed slot also gets a new mtime)
                mt = sim_mtime(sha)
                os.utime(name, (mt, mt))
                continue
            rec = exec_op(op, detail)
            rec["j"] = j
            if tables_every_op:
                rec["tables"] = _table_mismatch()
            emit(rec)
        emit({"end": True, "tables": _table_mismatch() if tables_at_end else {"v": [], "o": []}})
    finally:
        os.chdir(W["rundir"])
        try:
            for n in os.listdir(d):
                os.unlink(os.path.join(d, n))
            os.rmdir(d)
        except OSError:
            pass
    return len(ops)


def _table_mismatch():
    """tables (module-level data that is non-empty in a fresh process) that differ from the fresh-process
    snapshot -> {"v": ["module:attr", ...], "o": [observations: caches/accumulators that changed]}"""
    viol, obs = canon.compare_tables(W["snapshot"], canon.process_tables())
    return {"v": viol[:12], "o": obs[:12]}


def run_ops(ops, images, detail=False, tables_every_op=False, timeout=None, tables_at_end=True):
    """history (or mini-history = reference) in a fresh fork of the zygote"""
    recs = []
    t = timeout or (60.0 + 20.0 * len(ops))
    r = core.fork_call(_history_child, (ops, images, detail, tables_every_op, tables_at_end), timeout=t, stream=True,
                       on_record=recs.append, as_extra=2 << 30)
    return r, recs


# ------------------------------------------------------------------ reference model


class RefMemo:
    def __init__(self):
        self.memo = {}
        self.hits = 0
        self.misses = 0

    def key(self, op):
        if op[0] in SLOT_OPS:
            return json.dumps(op[:1] + op[2:], sort_keys=True)  # without the slot number
        return json.dumps(op, sort_keys=True)

    def get(self, op, images, detail=False):
        k = self.key(op)
        if not detail and k in self.memo:
            self.hits += 1
            return self.memo[k]
        self.misses += 1
        mini = []
        if op[0] in SLOT_OPS:
            mini.append(["install", op[1], op[2], op[3]])
        if op[0] == "stdheld":
            mini.append(["stdhold", op[1], op[2], op[3], op[4]])
        mini.append(op)
        r, recs = run_ops(mini, images, detail=detail, tables_at_end=False)
        ops_recs = [x for x in recs if "j" in x]
        end = [x for x in recs if x.get("end")]
        if r.status != "ok" or not ops_recs:
            out = {"d": "REF-FAILED:%s" % r.status, "c": {}, "x": "ref-" + r.status}
        else:
            out = ops_recs[-1]  # the op itself is the last one of the mini-history
        if not detail:
            self.memo[k] = out
        return out


# -------------------------------------------------------------------------- shard runner


def check_history(h, memo, detail=False):
    """Returns (record list, violations list)."""
    r, recs = run_ops(h.ops, h.images, detail=detail)
    viols = []
    op_recs = [x for x in recs if "j" in x]
    end = [x for x in recs if x.get("end")]
    if r.status == "error":
        raise core.HarnessError("history child failed (history %s): %s" % (h.index, r.value))
    if r.status != "ok":
        # the history itself died: crash / stall is reported with the op in progress
        done = set(x["j"] for x in op_recs)
        rest = [j for j, o in enumerate(h.ops) if o[0] != "install" and j not in done]
        j = rest[0] if rest else len(h.ops) - 1
        viols.append({"class": "node_" + r.status, "op": h.ops[j][0], "j": j, "signal": r.signal})
    for x in op_recs:
        op = h.ops[x["j"]]
        if op[0] not in COMPARED:
            continue
        ref = memo.get(op, h.images)
        if ref["d"] != x["d"]:
            comps = sorted(k for k in set(ref["c"]) | set(x["c"]) if ref["c"].get(k) != x["c"].get(k))
            viols.append({"class": "divergence", "op": op[0], "component": "+".join(comps) or "?", "j": x["j"],
                          "history_exc": x.get("x"), "fresh_exc": ref.get("x"),
                          "fmt": op[4] if op[0] in ("dis", "cli") else None})
    obs = []
    if end and end[0]["tables"]["v"]:
        viols.append({"class": "tables", "op": "?", "modules": end[0]["tables"]["v"], "j": -1})
    if end:
        obs = end[0]["tables"]["o"]
    h_obs = getattr(h, "observations", None)
    if h_obs is not None:
        h_obs.extend(obs)
    return op_recs, viols


def signature(v):
    c = v["class"]
    if c == "divergence":
        return {"class": c, "op": v["op"], "component": v["component"]}
    if c == "tables":
        return {"class": c, "modules": ",".join(v["modules"][:4])}
    return {"class": c, "op": v.get("op")}


def sig_key(sig):
    return "|".join("%s=%s" % (k, sig[k]) for k in sorted(sig))


def new_agg():
    return {"histories": 0, "ops": 0, "compared": 0, "fault_ops": 0, "fault_ops_fired": 0, "op_kinds": {},
            "distinct": set(), "pairs": set(), "violations": [], "probes": {}, "ref_hits": 0, "ref_misses": 0,
            "faults_fired": {}, "exc_results": 0, "samples": [], "wall": 0.0, "faulted_installs": 0,
            "digest": 0, "digest_verdict": 0, "state_observations": {}, "chain_pairs": 0}


def _probe(agg, name, n=1):
    agg["probes"][name] = agg["probes"].get(name, 0) + n


def run_shard(shard):
    lo, hi = shard
    agg = new_agg()
    memo = RefMemo()
    t0 = time.time()
    for i in range(lo, hi):
        h = plan_history(i)
        recs, viols = check_history(h, memo)
        account(agg, h, recs, viols)
    agg["ref_hits"] = memo.hits
    agg["ref_misses"] = memo.misses
    agg["wall"] = time.time() - t0
    agg["distinct"] = sorted(agg["distinct"])
    agg["pairs"] = sorted(agg["pairs"])
    return agg


def account(agg, h, recs, viols):
    agg["histories"] += 1
    by_j = dict((x["j"], x) for x in recs)
    kinds = set()
    prev = None
    last_sha_by_slot = {}
    for j, op in enumerate(h.ops):
        k = op[0]
        agg["op_kinds"][k] = agg["op_kinds"].get(k, 0) + 1
        kinds.add(k)
        if k == "install":
            if op[1] in last_sha_by_slot and last_sha_by_slot[op[1]] != op[2]:
                _probe(agg, "slot re-installed with different content")
            last_sha_by_slot[op[1]] = op[2]
            continue
        agg["ops"] += 1
        rec = by_j.get(j)
        if k in COMPARED:
            agg["compared"] += 1
            if rec is not None and rec.get("x"):
                agg["exc_results"] += 1
                _probe(agg, "compared op ended in an exception (%s)" % k)
        if k in FAULT_OPS:
            agg["fault_ops"] += 1
            if rec is not None and rec.get("fired"):
                agg["fault_ops_fired"] += 1
                _probe(agg, "aborted op surfaced as %s" % rec.get("x"))
                en = op[6] if k == "dis_abort" else "EIO(read)"
                agg["faults_fired"][en] = agg["faults_fired"].get(en, 0) + 1
                if k == "dis_abort" and op[5] == 1:
                    _probe(agg, "output stream failed at first write")
            elif rec is not None and rec.get("x"):
                _probe(agg, "fault op ended in %s" % rec.get("x"))
            else:
                _probe(agg, "fault op completed before reaching its fault")
        if prev is not None:
            agg["pairs"].add("%s>%s" % (prev, k))
        prev = k
        if rec is not None:
            agg["digest"] ^= int(canon.digest([h.index, j, rec["d"]])[:12], 16)
            agg["digest_verdict"] ^= int(canon.digest([h.index, j, op, rec.get("x")])[:12], 16)
    nops = len([o for o in h.ops if o[0] != "install"])
    if nops >= 2 and (len(kinds - {"install"}) >= 2 or nops >= 40):
        agg["distinct"].add(h.key())
    if nops >= 40:
        _probe(agg, "long chain (>= 40 operations in one process)")
        agg["chain_pairs"] += nops * (nops - 1) // 2
    if any(o[0] == "std" for o in h.ops):
        _probe(agg, "std api built in history")
    if any(o[0] == "import" for o in h.ops):
        _probe(agg, "late import in history")
    for o in getattr(h, "observations", None) or []:
        agg["state_observations"][o] = agg["state_observations"].get(o, 0) + 1
    for v in viols:
        if len(agg["violations"]) < 100:
            agg["violations"].append({"i": h.index, "v": v})
    if len(agg["samples"]) < 2:
        agg["samples"].append({"history": h.index, "ops": [[o[0]] + [x for x in o[3:]] if o[0] != "install" else
                                                           ["install", o[1], o[3], o[2][:10]] for o in h.ops]})


def digest_run(n, workers, shard=4):
    shards = [(lo, min(n, lo + shard)) for lo in range(0, n, shard)]
    tot = merge(core.run_sharded(run_shard, shards, workers))
    return "%012x" % tot["digest"], "%012x" % tot["digest_verdict"], tot


def merge(aggs):
    tot = new_agg()
    for a in aggs:
        for k in ("histories", "ops", "compared", "fault_ops", "fault_ops_fired", "ref_hits", "ref_misses",
                  "exc_results", "chain_pairs"):
            tot[k] += a[k]
        tot["digest"] ^= a["digest"]
        tot["digest_verdict"] ^= a["digest_verdict"]
        tot["wall"] = max(tot["wall"], a["wall"])
        for dk in ("op_kinds", "probes", "faults_fired", "state_observations"):
            for k, v in a[dk].items():
                tot[dk][k] = tot[dk].get(k, 0) + v
        tot["distinct"].update(a["distinct"])
        tot["pairs"].update(a["pairs"])
        tot["violations"].extend(a["violations"])
        if len(tot["samples"]) < 4:
            tot["samples"].extend(a["samples"][:1])
    tot["violations"].sort(key=lambda x: x["i"])
    return tot


# ------------------------------------------------------------------------ minimisation


def _prune(ops):
    """drop ops that refer to a slot with no (or different) content; keep history well-formed"""
    state = {}
    held = {}
    out = []
    for op in ops:
        if op[0] == "install":
            state[op[1]] = (op[2], op[3])
            out.append(op)
        elif op[0] in SLOT_OPS:
            if state.get(op[1]) == (op[2], op[3]):
                if op[0] == "stdhold":
                    held[op[4]] = (op[2], op[3])
                if op[0] == "stdheld" and held.get(op[4]) != (op[2], op[3]):
                    continue
                out.append(op)
        else:
            out.append(op)
    # drop installs that nothing uses before the next install of that slot
    keep = []
    for j, op in enumerate(out):
        if op[0] == "install":
            used = False
            for o2 in out[j + 1:]:
                if o2[0] == "install" and o2[1] == op[1]:
                    break
                if o2[0] in SLOT_OPS and o2[1] == op[1]:
                    used = True
                    break
            if not used:
                continue
        keep.append(op)
    return keep


def minimise_history(h, want_key, memo, first_j=None):
    from sim import minimise

    def fails(ops):
        ops = _prune(ops)
        if not ops:
            return False
        hh = History()
        hh.index, hh.seed, hh.ops, hh.images, hh.faulty = h.index, h.seed, ops, h.images, h.faulty
        hh.observations = []
        _, viols = check_history(hh, memo)
        return any(sig_key(signature(v)) == want_key for v in viols)

    budget = minimise.Budget(60 if len(h.ops) > 60 else 120)
    ops = list(h.ops)
    if not fails(ops):
        return ops, {"strategy": ["not reproduced during minimisation"], "tests": 1}
    strategy = []
    # nothing after the first diverging operation can matter
    if first_j is not None and 0 <= first_j < len(ops) - 1 and fails(ops[:first_j + 1]):
        strategy.append("truncated after the diverging operation: %d -> %d" % (len(ops), first_j + 1))
        ops = ops[:first_j + 1]
    # the victim is the last op; find a short polluting prefix by halving before the general ddmin
    while len(ops) > 16 and budget.left > 0:
        half = ops[len(ops) // 2:]
        if budget.take() and fails(half):
            ops = half
            continue
        half = ops[:len(ops) // 2 - 1] + ops[-2:]
        if budget.take() and fails(half):
            ops = half
            continue
        break
    ops = minimise.ddmin_list(ops, fails, budget)
    ops = _prune(ops)
    return ops, {"strategy": strategy + ["ddmin over operations: %d -> %d" % (len(h.ops), len(ops))],
                 "tests": budget.tests}


def _detail_diff(h_ops, images, memo, sig):
    """excerpt of the first differing component between history and fresh process"""
    r, recs = run_ops(h_ops, images, detail=True)
    out = {}
    for x in recs:
        if "j" not in x:
            continue
        op = h_ops[x["j"]]
        if op[0] not in COMPARED:
            continue
        ref = memo.get(op, images, detail=True)
        if ref["d"] != x["d"]:
            for k in sorted(set(ref.get("full", {})) | set(x.get("full", {}))):
                a = ref.get("full", {}).get(k, "")
                b = x.get("full", {}).get(k, "")
                if a != b:
                    pos = 0
                    while pos < min(len(a), len(b)) and a[pos] == b[pos]:
                        pos += 1
                    out = {"op": op, "component": k, "first_difference_at": pos,
                           "fresh_process": a[max(0, pos - 80):pos + 160], "after_history": b[max(0, pos - 80):pos + 160]}
                    return out
    return out


# ------------------------------------------------------------------------------ driver

TIERS = {
    # other_hosts: (histories, chains, workers) for each of the other host interpreters, run concurrently
    "quick": {"histories": 1000, "chains": 40, "produce": (2, 2), "wall_cap": 110, "shard": 10,
              "other_hosts": (90, 3, 3)},
    "thorough": {"histories": 20000, "chains": 800, "produce": (10, 12), "wall_cap": 2400, "shard": 20,
                 "other_hosts": (2000, 80, 3)},
}


def _replay_path(master, tag):
    os.makedirs(core.REPLAY_DIR, exist_ok=True)
    return os.path.join(core.REPLAY_DIR, "C18-%d-py%d%d-%s.json" % (master, sys.version_info[0], sys.version_info[1], tag))


def matches_finding(sig, finding):
    m = finding.get("match", {})
    return all(sig.get(k) == val for k, val in m.items())


def fresh_interpreter_check(sample):
    """zygote validity: recompute references in a truly fresh `python` process"""
    import subprocess

    bad = []
    n = 0
    for h in sample:
        memo = RefMemo()
        for op in h.ops:
            if op[0] not in COMPARED or op[0] == "stdheld":
                continue
            ref = memo.get(op, h.images)
            job = {"op": op, "image": core.b64(h.images[op[2]]) if op[0] in SLOT_OPS else None,
                   "rundir": W["rundir"], "snapshot": None}
            p = subprocess.run([sys.executable, "-B", "-s", os.path.join(core.VERIF_DIR, "sim", "freshref.py")],
                               input=json.dumps(job).encode(), stdout=subprocess.PIPE, stderr=subprocess.PIPE,
                               env=core.child_env(), timeout=300)
            n += 1
            try:
                out = json.loads(p.stdout.decode().strip().splitlines()[-1])
            except Exception:
                bad.append({"op": op, "error": p.stderr.decode()[-300:]})
                continue
            if out["d"] != ref["d"]:
                bad.append({"op": op, "fresh_interpreter": out["c"], "fork_of_zygote": ref["c"]})
            break  # one op per sampled history keeps this cheap
    return n, bad


def run_other_hosts(master, tier, n_hist, n_chains, workers_each):
    """the same simulation on every other host interpreter, concurrently; each returns a summary JSON"""
    import subprocess
    import threading

    me = "%d.%d.%d" % sys.version_info[:3]
    outs = []
    errs = []

    def one(tag, exe):
        outp = os.path.join(W["rundir"], "sub-%s.json" % tag)
        try:
            p = subprocess.run([exe, "-B", "-s", os.path.join(core.VERIF_DIR, "sim", "main.py"), "C18", "--tier", tier,
                                "--seed", str(master), "--runs", str(n_hist), "--chains", str(n_chains),
                                "--workers", str(workers_each), "--sub", outp, "--no-selftest"],
                               env=core.child_env(), stdout=subprocess.PIPE, stderr=subprocess.PIPE, timeout=3600)
            if p.returncode not in (0, 1):
                errs.append("C18 on host %s failed (%d): %s" % (tag, p.returncode, p.stderr.decode(errors="replace")[-500:]))
                return
            with open(outp) as f:
                outs.append(json.load(f))
        except Exception as e:
            errs.append("C18 on host %s: %r" % (tag, e))

    ths = []
    for tag, exe in core.host_pythons():
        if tag != me:
            t = threading.Thread(target=one, args=(tag, exe))
            t.start()
            ths.append(t)
    for t in ths:
        t.join()
    if errs:
        raise core.HarnessError("; ".join(errs[:2]))
    outs.sort(key=lambda o: o["host"])
    return outs


def main(opts):
    t0 = time.time()
    tier = opts["tier"]
    master = opts["seed"]
    cfg = dict(TIERS[tier])
    if opts.get("runs"):
        cfg["histories"] = int(opts["runs"])
        cfg["other_hosts"] = None
    if opts.get("chains") is not None:
        cfg["chains"] = int(opts["chains"])
    workers = opts.get("workers") or core.default_workers()
    sub = opts.get("sub")
    core.log("[C18] tier=%s seed=%d host=%s workers=%d%s" % (tier, master, sys.version.split()[0], workers,
                                                             " (sub)" if sub else ""))
    produced = corpus.load_produced() if sub else corpus.produce_corpus(master, cfg["produce"][0], cfg["produce"][1])
    prepare(master, tier, produced)
    core.log("[C18] corpus: %d files (%d loadable, %d small enough for listings), %d versions, prepared in %.1fs" % (
        len(W["bases"]), len(W["loadable"]), len(W["small"]), len(W["versions"]), time.time() - t0))
    # zygote sanity: the zygote's tables equal the all-imported snapshot on shared modules
    # importing every other xdis module must not alter a table of a module that `import xdis` already loaded
    zbad, _zobs = canon.compare_tables(W["zygote_tables"], W["all_imported_tables"])
    n = cfg["histories"]
    sh = cfg["shard"]
    W["chain_from"] = n
    # chains first (they are the long poles), 3 per shard so that a worker's reference memo is reused
    nch = cfg.get("chains", 0) if (not opts.get("runs") or opts.get("chains") is not None) else max(0, int(opts["runs"]) // 40)
    shards = [(lo, min(n + nch, lo + 3)) for lo in range(n, n + nch, 3)]
    shards += [(lo, min(n, lo + sh)) for lo in range(0, n, sh)]
    aggs = []
    wave = workers * 2
    for w0 in range(0, len(shards), wave):
        if time.time() - t0 > cfg["wall_cap"]:
            core.log("[C18] wall cap reached after %d histories" % sum(a["histories"] for a in aggs))
            break
        aggs.extend(core.run_sharded(run_shard, shards[w0:w0 + wave], workers))
    tot = merge(aggs)
    t_runs = time.time() - t0
    others = []
    if cfg.get("other_hosts") and not sub and not opts.get("no_hosts"):
        oh = cfg["other_hosts"]
        others = run_other_hosts(master, tier, oh[0], oh[1], oh[2])
    # determinism self-test: the first shard again, in this process layout and split differently
    det_ok = True
    if not opts.get("no_selftest"):
        a1 = merge([run_shard((0, 6))])
        a2 = merge(core.run_sharded(run_shard, [(0, 2), (2, 4), (4, 6)], 3))
        det_ok = a1["digest"] == a2["digest"] and a1["ops"] == a2["ops"]
    # zygote validity on a seeded sample
    fresh_n, fresh_bad = (0, [])
    if not opts.get("no_selftest"):
        k = 6 if tier == "quick" else 40
        fresh_n, fresh_bad = fresh_interpreter_check([plan_history(i) for i in range(0, k)])
    findings = core.load_known_findings()
    lines = []
    known_hits = {}
    replays = []
    n_unknown = 0
    if zbad:
        tot["violations"].insert(0, {"i": -1, "v": {"class": "tables", "op": "import", "modules": zbad, "j": -1,
                                                     "single_call": False, "note": "import order"}})
    by_sig = {}
    for x in tot["violations"]:
        by_sig.setdefault(sig_key(signature(x["v"])), []).append(x)
    memo = RefMemo()
    for k in sorted(by_sig):
        group = by_sig[k]
        sig = signature(group[0]["v"])
        known = None
        for f in findings:
            if f.get("property") == PROP and f.get("status") == "known" and matches_finding(sig, f):
                known = f
        if known is not None:
            known_hits[known["id"]] = known_hits.get(known["id"], 0) + len(group)
            continue
        n_unknown += 1
        x = group[0]
        if x["i"] < 0:
            path = _replay_path(master, "imports")
            core.write_json_atomic(path, {"property": PROP, "signature": sig, "violation": x["v"]})
        else:
            h = plan_history(x["i"])
            ops, info = minimise_history(h, k, memo, x["v"].get("j"))
            diff = _detail_diff(ops, h.images, memo, sig) if sig["class"] == "divergence" else {}
            used = set(o[2] for o in ops if o[0] == "install")
            path = _replay_path(master, "%s-%d" % (core.sha256_hex(k.encode())[:8], len(replays)))
            core.write_json_atomic(path, {
                "property": PROP, "master_seed": master, "history_index": x["i"], "history_seed": h.seed,
                "signature": sig, "violation": x["v"], "ops": ops, "original_ops": h.ops,
                "images_b64": dict((s_, core.b64(h.images[s_])) for s_ in sorted(used)),
                "minimisation": info, "difference": diff, "instances_in_run": len(group),
                "host": "%d.%d.%d" % sys.version_info[:3]})
        replays.append(path)
        lines.append("VIOLATION property=%s replay=%s" % (PROP, path))
        core.log("  class %s: %s (%d instance(s))" % (k, x["v"], len(group)))
    for o in others:
        n_unknown += o["n_unknown"]
        lines.extend(o["lines"])
        replays.extend(o["replays"])
        for kk, vv in o["known"].items():
            known_hits[kk] = known_hits.get(kk, 0) + vv
    for f in findings:
        if f.get("property") == PROP and f.get("status") == "known" and known_hits.get(f["id"]) and not sub:
            lines.append("KNOWN-FINDING: property=%s %s: %s [%d instance(s) in this run]" % (
                PROP, f["id"], f["description"], known_hits[f["id"]]))
    wall = time.time() - t0
    if sub:
        with open(sub, "w") as f:
            json.dump({"host": "%d.%d.%d" % sys.version_info[:3], "n_unknown": n_unknown, "lines": lines,
                       "replays": replays, "known": known_hits,
                       "summary": {"histories": tot["histories"], "ops": tot["ops"], "compared": tot["compared"],
                                   "fault_ops_fired": tot["fault_ops_fired"], "distinct": len(tot["distinct"]),
                                   "chain_pairs": tot["chain_pairs"], "wall": round(wall, 1)}}, f)
        return core.EXIT_VIOLATION if n_unknown else core.EXIT_OK
    coverage = {
        "evaluations": tot["histories"] + sum(o["summary"]["histories"] for o in others),
        "distinct_nontrivial": len(tot["distinct"]) + sum(o["summary"]["distinct"] for o in others),
        "histories_on_other_hosts": dict((o["host"], o["summary"]) for o in others),
        "rule": "one evaluation = one seeded history of public operations executed in a fork of a pristine "
                "`import xdis` process over a simulated disk of 2-4 slots, every compared operation checked against "
                "the same call made first in its own fresh fork, tables checked against the fresh-process snapshot "
                "at the end; distinct_nontrivial counts distinct histories (hash of the op list) with >= 2 non-install "
                "ops of >= 2 different kinds, or long chains (>= 40 ops)",
        "samples": tot["samples"][:3] or [{"note": "none"}],
        "operations": tot["ops"],
        "compared_operations": tot["compared"],
        "compared_operations_that_raise": tot["exc_results"],
        "fault_operations": tot["fault_ops"],
        "fault_operations_whose_fault_fired": tot["fault_ops_fired"],
        "faults_fired": tot["faults_fired"],
        "op_kinds": tot["op_kinds"],
        "distinct_ordered_pairs_of_op_kinds": len(tot["pairs"]),
        "reach_probes": tot["probes"],
        "non_table_state_changes_observed": tot["state_observations"],
        "ordered_file_pairs_covered_by_long_chains": tot["chain_pairs"],
        "reference_computations": tot["ref_misses"],
        "reference_memo_hits": tot["ref_hits"],
        "seeds_per_hour": int(tot["histories"] / max(1e-6, t_runs) * 3600),
        "simulated_time": "%d operation steps (there is no clock in the system; one step = one public call)" % tot["ops"],
        "files": len(W["bases"]), "files_small_enough_for_listings": len(W["small"]),
        "opcode_versions": len(W["versions"]),
        "xdis_modules_in_table_snapshot": len(W["snapshot"]),
        "zygote_validity_fresh_interpreter_samples": fresh_n,
        "zygote_validity_mismatches": fresh_bad[:3],
        "determinism_selftest": "ok" if det_ok else "MISMATCH",
        "known_findings_matched": known_hits,
        "replays": replays,
        "components_real": ["xdis (every module, /repo working tree)", "CPython of the host", "real files in tmpfs"],
        "components_stubbed": ["output stream (capturing / failing at the k-th write)",
                               "file object (failing at the k-th read)", "simulated disk slots",
                               "sys.stdout / sys.stderr"],
        "host": sys.version.split()[0],
        "exhaustive": False,
    }
    core.write_evidence(PROP, tier, master, coverage, wall, n_unknown, [
        "sequential histories of one caller only (the property speaks about one caller)",
        "listing/std operations use files whose largest code object is <= %d bytes" % SMALL_MAX_CO,
        "stderr is not part of a result; stdout is", "explicit opcode remapping (alternate_opmap) is never generated",
    ])
    for ln in lines:
        print(ln)
    core.log("[C18] %d histories, %d ops (%d compared, %d fault ops, %d fired), %d distinct, refs %d (+%d memo hits), "
             "%.1fs" % (tot["histories"], tot["ops"], tot["compared"], tot["fault_ops"], tot["fault_ops_fired"],
                        len(tot["distinct"]), tot["ref_misses"], tot["ref_hits"], wall))
    if not det_ok:
        core.log("[C18] HARNESS-ERROR: determinism self-test mismatch")
    if fresh_bad:
        core.log("[C18] HARNESS-ERROR: fork-of-zygote reference differs from a fresh interpreter: %s" % fresh_bad[:2])
    if n_unknown:
        # a real violation may itself make behaviour depend on the harness layout; the violation is the verdict
        return core.EXIT_VIOLATION
    if not det_ok or fresh_bad:
        return core.EXIT_HARNESS
    return core.EXIT_OK


def replay(path):
    with open(path) as f:
        r = json.load(f)
    me = "%d.%d.%d" % sys.version_info[:3]
    if r.get("host") and r["host"] != me and os.environ.get("XDIS_VERIF_REPLAY_SUB") != "1":
        import subprocess

        for tag, exe in core.host_pythons():
            if tag == r["host"]:
                return subprocess.run([exe, "-B", "-s", os.path.join(core.VERIF_DIR, "sim", "main.py"), "C18",
                                       "--replay", path], env=core.child_env({"XDIS_VERIF_REPLAY_SUB": "1"})).returncode
    produced = []
    prepare(r.get("master_seed", 0), "quick", produced)
    h = History()
    h.index, h.seed, h.faulty = r.get("history_index", 0), r.get("history_seed", 0), True
    h.observations = []
    h.ops = r["ops"]
    h.images = dict((k, core.unb64(v)) for k, v in r["images_b64"].items())
    memo = RefMemo()
    _, viols = check_history(h, memo)
    want = sig_key(r["signature"])
    got = [v for v in viols if sig_key(signature(v)) == want]
    if got:
        print("reproduced: %s" % (got[0],))
        print("VIOLATION property=%s replay=%s" % (PROP, path))
        return core.EXIT_VIOLATION
    if viols:
        print("different violation on replay: %s" % (viols[0],))
        print("VIOLATION property=%s replay=%s" % (PROP, path))
        return core.EXIT_VIOLATION
    print("not reproduced")
    return core.EXIT_OK
