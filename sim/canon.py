# Host-independent canonical form of everything the oracles compare: code-object trees,
# constants by exact kind and value, load_module / disassemble_file results, listing
# text, opcode-table state.  Fields are selected by the *bytecode's* version, never by
# the host running the check.
#
# Python 3.8 syntax; imports nothing from xdis at module level (callers run it inside
# forks / nodes that have xdis loaded).

import hashlib
import json
import re
import struct
import sys
import types

_HEX = re.compile(r"0x[0-9a-fA-F]{6,}")


def digest(obj):
    return hashlib.sha256(json.dumps(obj, sort_keys=True, separators=(",", ":")).encode("utf-8")).hexdigest()[:24]


def norm_text(s):
    """rename hex addresses by order of first appearance"""
    seen = {}

    def sub(m):
        a = m.group(0).lower()
        if a not in seen:
            seen[a] = "0xADDR%d" % len(seen)
        return seen[a]

    return _HEX.sub(sub, s)


def _iscode(v):
    if isinstance(v, types.CodeType):
        return True
    try:
        from xdis.codetype.base import CodeBase

        return isinstance(v, CodeBase)
    except Exception:
        return False


def _text(s):
    # json escapes lone surrogates with ensure_ascii; keep str as is
    return s


def canon_value(v, ver, with_types=True, depth=0):
    """JSON-able canonical form of a constant / field value."""
    if depth > 200:
        return ["too-deep"]
    if v is None:
        return ["None"]
    if v is True or v is False:
        return ["bool", bool(v)]
    if v is Ellipsis:
        return ["Ellipsis"]
    if v is StopIteration:
        return ["StopIteration"]
    t = type(v)
    tn = t.__name__
    if _iscode(v):
        return canon_code(v, ver, with_types, depth + 1)
    if isinstance(v, bool):
        return ["bool", bool(v)]
    if isinstance(v, int):
        return [tn if tn != "int" else "int", str(int(v))]
    if isinstance(v, float):
        return [tn, struct.pack(">d", v).hex()]
    if isinstance(v, complex):
        return [tn, struct.pack(">d", v.real).hex(), struct.pack(">d", v.imag).hex()]
    if isinstance(v, str):
        if tn != "str":
            raw = getattr(v, "value", None)
            if isinstance(raw, (bytes, bytearray)):
                return [tn, bytes(raw).hex()]
            return [tn, _text(str.__str__(v))]
        return ["str", _text(v)]
    if isinstance(v, (bytes, bytearray)):
        return [tn, bytes(v).hex()]
    if isinstance(v, tuple):
        return [tn, [canon_value(x, ver, with_types, depth + 1) for x in v]]
    if isinstance(v, list):
        return [tn, [canon_value(x, ver, with_types, depth + 1) for x in v]]
    if isinstance(v, (set, frozenset)):
        items = [canon_value(x, ver, with_types, depth + 1) for x in v]
        items.sort(key=lambda x: json.dumps(x, sort_keys=True))
        return [tn, items]
    if isinstance(v, dict):
        items = [[canon_value(k, ver, with_types, depth + 1), canon_value(x, ver, with_types, depth + 1)]
                 for k, x in v.items()]
        items.sort(key=lambda x: json.dumps(x, sort_keys=True))
        return [tn, items]
    if isinstance(v, type):
        return ["type", v.__module__ + "." + v.__name__]
    try:
        r = repr(v)
    except Exception as e:
        r = "<repr failed %s>" % type(e).__name__
    return ["obj", tn, norm_text(r)]


def line_table(co, ver):
    """the line-table bytes as stored for this bytecode version"""
    if ver >= (3, 10):
        for name in ("co_linetable", "co_lnotab"):
            if name == "co_lnotab" and isinstance(co, types.CodeType):
                continue
            try:
                v = getattr(co, name)
            except Exception:
                continue
            if v is not None:
                return v
        return None
    for name in ("co_lnotab", "co_linetable"):
        if name == "co_lnotab" and isinstance(co, types.CodeType) and sys.version_info >= (3, 10):
            # derived (and deprecated) on new hosts; the stored table is co_linetable
            continue
        try:
            v = getattr(co, name)
        except Exception:
            continue
        if v is not None:
            return v
    return None


def _freeze_like(v):
    """portable code objects may hold lists/dicts for tuple fields before freeze()"""
    return v


def canon_code(co, ver, with_types=True, depth=0):
    ver = tuple(ver[:2])
    d = {}
    if with_types:
        d["type"] = type(co).__name__

    def fld(name):
        try:
            return getattr(co, name)
        except Exception as e:
            return "<missing:%s>" % type(e).__name__

    d["co_argcount"] = canon_value(fld("co_argcount"), ver, with_types, depth)
    if ver >= (3, 8):
        d["co_posonlyargcount"] = canon_value(fld("co_posonlyargcount"), ver, with_types, depth)
    if ver >= (3, 0):
        d["co_kwonlyargcount"] = canon_value(fld("co_kwonlyargcount"), ver, with_types, depth)
    if ver >= (1, 3):
        d["co_nlocals"] = canon_value(fld("co_nlocals"), ver, with_types, depth)
    if ver >= (1, 5):
        d["co_stacksize"] = canon_value(fld("co_stacksize"), ver, with_types, depth)
    d["co_flags"] = canon_value(fld("co_flags"), ver, with_types, depth)
    code = fld("co_code")
    if isinstance(code, str):
        try:
            code = code.encode("latin-1")
        except Exception:
            pass
    d["co_code"] = canon_value(code, ver, False, depth)
    consts = fld("co_consts")
    if isinstance(consts, (tuple, list)):
        d["co_consts"] = [canon_value(x, ver, with_types, depth + 1) for x in consts]
        if with_types:
            d["co_consts_kind"] = type(consts).__name__
    else:
        d["co_consts"] = canon_value(consts, ver, with_types, depth + 1)
    for name in ("co_names", "co_varnames", "co_freevars", "co_cellvars"):
        if name in ("co_freevars", "co_cellvars") and ver < (2, 0):
            continue
        if name == "co_varnames" and ver < (1, 3):
            continue
        v = fld(name)
        if isinstance(v, (tuple, list)):
            d[name] = [canon_value(x, ver, with_types, depth + 1) for x in v]
        else:
            d[name] = canon_value(v, ver, with_types, depth + 1)
    d["co_filename"] = canon_value(fld("co_filename"), ver, with_types, depth)
    d["co_name"] = canon_value(fld("co_name"), ver, with_types, depth)
    if ver >= (3, 11):
        d["co_qualname"] = canon_value(fld("co_qualname"), ver, with_types, depth)
        d["co_exceptiontable"] = canon_value(fld("co_exceptiontable"), ver, False, depth)
    if ver >= (1, 5):
        d["co_firstlineno"] = canon_value(fld("co_firstlineno"), ver, with_types, depth)
        lt = line_table(co, ver)
        if isinstance(lt, str):
            try:
                lt = lt.encode("latin-1")
            except Exception:
                pass
        d["linetable"] = canon_value(lt, ver, False, depth)
    return ["code", d]


def canon_exception(e):
    return ["raised", type(e).__name__, norm_text(str(e))[:2000]]


def canon_load_result(res):
    """7-tuple of load_module"""
    if not (isinstance(res, tuple) and len(res) == 7):
        return ["bad-shape", type(res).__name__]
    version, ts, magic_int, co, is_pypy, size, sip = res
    ver = tuple(version[:2]) if isinstance(version, tuple) else (0, 0)
    return ["load", {
        "version": list(version) if isinstance(version, tuple) else repr(version),
        "timestamp": canon_value(ts, ver), "magic_int": canon_value(magic_int, ver),
        "co": canon_value(co, ver), "is_pypy": canon_value(is_pypy, ver),
        "source_size": canon_value(size, ver), "sip_hash": canon_value(sip, ver)}]


def canon_dis_result(res, filename_map=None):
    if not (isinstance(res, tuple) and len(res) == 8):
        return ["bad-shape", type(res).__name__]
    filename, co, version, ts, magic_int, is_pypy, size, sip = res
    ver = tuple(version[:2]) if isinstance(version, tuple) else (0, 0)
    return ["dis", {
        "filename": filename, "version": list(version) if isinstance(version, tuple) else repr(version),
        "timestamp": canon_value(ts, ver), "magic_int": canon_value(magic_int, ver),
        "co": canon_value(co, ver), "is_pypy": canon_value(is_pypy, ver),
        "source_size": canon_value(size, ver), "sip_hash": canon_value(sip, ver)}]


# ------------------------------------------------------------------ process tables


_PRIMS = (int, str, bool, type(None))


def _prim_key(x):
    return (type(x).__name__, x if x is not None else 0)


def _is_module_dict(v):
    try:
        n = v.get("__name__")
        m = sys.modules.get(n) if isinstance(n, str) else None
        return m is not None and vars(m) is v
    except Exception:
        return False


def _canon_table_value(v, depth=0):
    if depth > 6:
        return ["deep"]
    if isinstance(v, dict) and "__name__" in v and _is_module_dict(v):
        return ["module-dict", v.get("__name__")]
    if v is None or isinstance(v, (bool, int, str)):
        return v if not isinstance(v, int) or isinstance(v, bool) or abs(v) < (1 << 53) else str(v)
    if isinstance(v, float):
        return ["f", repr(v)]
    if isinstance(v, (bytes, bytearray)):
        return ["b", bytes(v).hex()]
    # fast paths: containers of plain ints/strs (the bulk of the opcode tables)
    tv = type(v)
    if tv in (list, tuple) and all(type(x) in _PRIMS for x in v):
        return [tv.__name__, repr(v)]
    if tv in (set, frozenset) and all(type(x) in _PRIMS for x in v):
        return [tv.__name__, repr(sorted(v, key=_prim_key))]
    if tv is dict and all(type(k) in _PRIMS and type(x) in _PRIMS for k, x in v.items()):
        return ["dict", repr(sorted(v.items(), key=lambda kv: _prim_key(kv[0])))]
    if isinstance(v, (list, tuple)):
        return [type(v).__name__, [_canon_table_value(x, depth + 1) for x in v]]
    if isinstance(v, (set, frozenset)):
        items = [_canon_table_value(x, depth + 1) for x in v]
        items.sort(key=repr)
        return [type(v).__name__, items]
    if isinstance(v, dict):
        items = [[_canon_table_value(k, depth + 1), _canon_table_value(x, depth + 1)] for k, x in v.items()]
        items.sort(key=repr)
        return ["dict", items]
    if isinstance(v, types.ModuleType):
        return ["module", v.__name__]
    if isinstance(v, (types.FunctionType, types.BuiltinFunctionType, types.MethodType)):
        return ["func", getattr(v, "__module__", None), getattr(v, "__qualname__", getattr(v, "__name__", "?"))]
    if isinstance(v, type):
        return ["class", v.__module__, v.__qualname__]
    return ["obj", type(v).__name__]


_DATA_TYPES = (bool, int, float, str, bytes, list, tuple, set, frozenset, dict, type(None))

# module-level accumulators that are written but never read back by any call
WRITE_ONLY = {("xdis.dropbox.decrypt25", "misses")}
# mutable default arguments that are written but never read (recorded, not compared)
WRITE_ONLY_DEFAULTS = {("xdis.unmarshal", "load_code", "code_objects"),
                       ("xdis.unmarshal", "_VersionIndependentUnmarshaller.__init__", "code_objects")}


def _defaults_of(fn):
    out = {}
    try:
        code = fn.__code__
        defaults = fn.__defaults__ or ()
        names = code.co_varnames[:code.co_argcount]
        for name, val in zip(names[len(names) - len(defaults):], defaults):
            if isinstance(val, (list, dict, set)):
                out[name] = val
    except Exception:
        pass
    return out


def _is_empty(v):
    return isinstance(v, (list, tuple, set, frozenset, dict, str, bytes)) and len(v) == 0


def module_state(mod):
    """flat {attribute path: (digest of canonical value, empty?)} of the module-level data of one xdis module:
    module attributes, class attributes of classes defined there ("Class.attr") and mutable default
    arguments of its functions/methods ("func(arg)")."""
    name = mod.__name__
    d = {}

    def put(key, v):
        d[key] = [digest(_canon_table_value(v)), bool(_is_empty(v))]

    for k in sorted(vars(mod)):
        if k.startswith("__") and k.endswith("__"):
            continue
        v = vars(mod)[k]
        if isinstance(v, _DATA_TYPES):
            put(k, v)
        elif isinstance(v, types.ModuleType):
            continue  # submodule attributes appear on a package when they are imported: not a table
        elif isinstance(v, types.FunctionType):
            d[k] = [digest(["func", v.__module__, v.__qualname__]), False]
            if v.__module__ == name:
                for an, av in _defaults_of(v).items():
                    put("%s(%s)" % (k, an), av)
        elif isinstance(v, type) and v.__module__ == name:
            for ck in sorted(vars(v)):
                if ck.startswith("__") and ck.endswith("__") and ck != "__init__":
                    continue
                cv = vars(v)[ck]
                if isinstance(cv, _DATA_TYPES):
                    put("%s.%s" % (k, ck), cv)
                elif isinstance(cv, types.FunctionType):
                    for an, av in _defaults_of(cv).items():
                        put("%s.%s(%s)" % (k, ck, an), av)
        elif isinstance(v, type):
            d[k] = [digest(["class-ref", v.__module__, v.__qualname__]), False]
    return d


def process_tables():
    """{module name: {attribute path: [digest, empty?]}} for every loaded xdis module"""
    out = {}
    for name in sorted(sys.modules):
        if name == "xdis" or name.startswith("xdis."):
            mod = sys.modules.get(name)
            if mod is None:
                continue
            try:
                out[name] = module_state(mod)
            except Exception as e:
                out[name] = {"<error>": ["ERR:%s" % type(e).__name__, False]}
    return out


def compare_tables(snapshot, current):
    """Returns (violations, observations): lists of "module:attribute".

    A *table* is module-level data that is non-empty in a fresh process (opcode maps, magic tables,
    dispatch tables, flag names, ...): it must be identical.  Data that is empty in a fresh process
    (memo caches, accumulators, mutable default arguments) or that did not exist there can only be
    judged by its effect on results, which the refinement oracle does; its change is an observation."""
    viol = []
    obs = []
    for mod in sorted(current):
        snap = snapshot.get(mod)
        if snap is None:
            continue
        cur = current[mod]
        for attr in sorted(set(snap) | set(cur)):
            a = snap.get(attr)
            b = cur.get(attr)
            if a is not None and b is not None and a[0] == b[0]:
                continue
            if a is not None and not a[1]:
                viol.append("%s:%s" % (mod, attr))
            else:
                obs.append("%s:%s" % (mod, attr))
    return viol, obs


def diff_module_state(a, b):
    """names of attributes whose canonical form differs"""
    keys = sorted(set(a) | set(b))
    return [k for k in keys if a.get(k) != b.get(k)]
