# Zygote-validity helper: computes one reference result in a truly fresh interpreter.
# stdin: JSON {"op": [...], "image": b64|null, "rundir": path}; stdout: last line JSON record.
import json
import os
import sys

sys.path.insert(0, os.path.dirname(os.path.dirname(os.path.abspath(__file__))))
import xdis  # noqa: E402,F401  (the user's first action: import the package)

from sim import c18, core  # noqa: E402

job = json.loads(sys.stdin.read())
d = os.path.join(job["rundir"], "fresh-%d" % os.getpid())
os.makedirs(d, exist_ok=True)
os.chdir(d)
op = job["op"]
try:
    if job.get("image") is not None:
        with open(op[3], "wb") as f:
            f.write(core.unb64(job["image"]))
        os.utime(op[3], (c18.sim_mtime(op[2]), c18.sim_mtime(op[2])))
    rec = c18.exec_op(op)
finally:
    for n in os.listdir(d):
        os.unlink(os.path.join(d, n))
    os.chdir("/")
    os.rmdir(d)
sys.stdout.write("\n" + json.dumps(rec) + "\n")
