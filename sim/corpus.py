# Workload files: "what the producer meant to write".
#
#  1. the .pyc/.pyo files shipped in /repo/test/bytecode_*
#  2. files produced at check time by every interpreter under ~/.pyenv/versions from
#     /repo/test/simple_source, /repo/xdis and a seeded sample of the producer's stdlib
#     (timestamp, checked-hash and unchecked-hash invalidation modes where available)
#  3. synthesised "not bytecode at all" inputs (made by the fault layer, see simdisk)
#
# Python 3.8 syntax.

import json
import os
import subprocess
import sys

from sim import core

MAX_FILE = 64 * 1024


class BaseFile:
    __slots__ = ("name", "path", "data", "origin", "magic_int", "sha")

    def __init__(self, name, path, data, origin):
        self.name = name  # basename used for the scratch copy (keeps e.g. "pypy38.pyc")
        self.path = path
        self.data = data
        self.origin = origin  # "repo" | "produced:<tag>:<mode>"
        self.magic_int = int.from_bytes(data[:2], "little") if len(data) >= 2 else -1
        self.sha = core.sha256_hex(data)

    def describe(self):
        return {"path": self.path, "origin": self.origin, "sha256": self.sha, "len": len(self.data),
                "magic_int": self.magic_int}


def repo_corpus():
    out = []
    troot = os.path.join(core.REPO_DIR, "test")
    for d in sorted(os.listdir(troot)):
        full = os.path.join(troot, d)
        if not (d.startswith("bytecode_") and os.path.isdir(full)):
            continue
        for r, dirs, files in os.walk(full):
            dirs.sort()
            for fn in sorted(files):
                if fn.endswith(".pyc") or fn.endswith(".pyo"):
                    p = os.path.join(r, fn)
                    with open(p, "rb") as f:
                        data = f.read()
                    if 0 < len(data) <= MAX_FILE:
                        out.append(BaseFile(fn, p, data, "repo"))
    return out


_PRODUCER_SCRIPT = r'''
import sys, os, json
try:
    import py_compile
except Exception:
    sys.exit(3)
spec = json.load(open(sys.argv[1]))
res = []
for job in spec["jobs"]:
    src, dst, mode = job[0], job[1], job[2]
    prefix = job[3] if len(job) > 3 else spec["dfile_prefix"]
    try:
        kw = {}
        if mode not in ("ts", "dup", "exc", "uset", "badpath", "dictconst"):
            from py_compile import PycInvalidationMode as M
            kw["invalidation_mode"] = M.CHECKED_HASH if mode == "ch" else M.UNCHECKED_HASH
        elif sys.version_info >= (3, 7):
            from py_compile import PycInvalidationMode as M
            kw["invalidation_mode"] = M.TIMESTAMP
        if mode == "badpath":
            # the source lives under a path that is not valid UTF-8: the compiler sees it with a surrogate escape,
            # marshal stores co_filename with "surrogatepass" (as an interned string from 3.13 on)
            py_compile.compile(src, cfile=dst, dfile=u"src/caf\udce9_" + os.path.basename(src), doraise=True)
        elif mode == "dictconst":
            # a dict among the constants (a bytecode writer can put one there), with None as key and as value
            import marshal, struct, importlib.util
            with open(src, "rb") as f:
                co = compile(f.read(), prefix + os.path.basename(src), "exec", dont_inherit=True)
            co2 = co.replace(co_consts=co.co_consts + ({"a": 1, "b": None, None: 2, "t": (None, 0)}, {}))
            with open(dst, "wb") as f:
                f.write(importlib.util.MAGIC_NUMBER + struct.pack("<III", 0, 1700000000, 0) + marshal.dumps(co2))
        elif mode == "uset":
            # Python 2 only: a frozenset / dict of unicode strings among the constants (the 2.x compiler never puts
            # one there, a bytecode writer can): their order in a listing must not depend on memory addresses
            import marshal, struct, types, imp
            with open(src, "rb") as f:
                co = compile(f.read(), prefix + os.path.basename(src), "exec", 0, 1)
            extra = (frozenset([u"alpha", u"beta", u"gamma", u"delta", u"epsilon", u"zeta"]),
                     frozenset([u"caf\xe9", u"na\xefve", u"plain"]))
            co2 = types.CodeType(co.co_argcount, co.co_nlocals, co.co_stacksize, co.co_flags, co.co_code,
                                 co.co_consts + extra, co.co_names, co.co_varnames, co.co_filename, co.co_name,
                                 co.co_firstlineno, co.co_lnotab, co.co_freevars, co.co_cellvars)
            with open(dst, "wb") as f:
                f.write(imp.get_magic() + struct.pack("<I", 1700000000) + marshal.dumps(co2))
        elif mode == "exc":
            # a legal marshal stream whose 3.11+ exception tables end in an incomplete entry (last byte dropped):
            # loadable everywhere, and every host / path must make the same of it
            import marshal, struct, types
            with open(src, "rb") as f:
                co = compile(f.read(), prefix + os.path.basename(src), "exec", dont_inherit=True)
            def cut(c):
                consts = tuple(cut(k) if isinstance(k, types.CodeType) else k for k in c.co_consts)
                t = c.co_exceptiontable
                return c.replace(co_consts=consts, co_exceptiontable=t[:-1] if len(t) > 1 else t)
            import importlib.util
            with open(dst, "wb") as f:
                f.write(importlib.util.MAGIC_NUMBER + struct.pack("<III", 0, 1700000000, 0) + marshal.dumps(cut(co)))
        elif mode == "dup":
            # a file no compiler emits but a bytecode rewriter can: every nested code constant appears twice, as
            # two distinct but equal objects
            import marshal, struct, types
            with open(src, "rb") as f:
                co = compile(f.read(), prefix + os.path.basename(src), "exec", dont_inherit=True)
            extra = tuple(c.replace() for c in co.co_consts if isinstance(c, types.CodeType))
            co2 = co.replace(co_consts=co.co_consts + extra)
            import importlib.util
            with open(dst, "wb") as f:
                f.write(importlib.util.MAGIC_NUMBER + struct.pack("<III", 0, 1700000000, 0) + marshal.dumps(co2))
        else:
            py_compile.compile(src, cfile=dst, dfile=prefix + os.path.basename(src), doraise=True, **kw)
        res.append(dst)
    except Exception:
        pass
json.dump(res, open(sys.argv[2], "w"))
'''


def _list_py(root, limit_bytes=120 * 1024):
    out = []
    for r, dirs, files in os.walk(root):
        dirs.sort()
        dirs[:] = [d for d in dirs if d not in ("__pycache__", "test", "tests", "idlelib", "lib2to3",
                                                "site-packages", "turtledemo", "tkinter", "ensurepip")]
        for fn in sorted(files):
            if fn.endswith(".py"):
                p = os.path.join(r, fn)
                try:
                    if 0 < os.path.getsize(p) <= limit_bytes:
                        out.append(p)
                except OSError:
                    pass
    return out


def _stdlib_dir(exe):
    d = os.path.dirname(os.path.dirname(os.path.realpath(exe)))
    libroot = os.path.join(d, "lib")
    try:
        for n in sorted(os.listdir(libroot)):
            if n.startswith("python") and os.path.isfile(os.path.join(libroot, n, "os.py")):
                return os.path.join(libroot, n)
    except OSError:
        pass
    return None


def load_produced(outdir=None):
    """files compiled earlier in this check run (by the coordinator) - for sub-processes on other hosts"""
    outdir = outdir or os.path.join(core.scratch_dir(), "produced")
    out = []
    try:
        tags = sorted(os.listdir(outdir))
    except OSError:
        return out
    for tag in tags:
        resf = os.path.join(outdir, tag, "res.json")
        try:
            with open(resf) as f:
                res = json.load(f)
        except Exception:
            continue
        for dst in sorted(res):
            try:
                with open(dst, "rb") as f:
                    data = f.read()
            except OSError:
                continue
            if 50 <= len(data) <= MAX_FILE:
                mode = dst.rsplit(".", 2)[-2]
                out.append(BaseFile(os.path.basename(dst), dst, data, "produced:%s:%s" % (tag, mode)))
    return out


def produce_corpus(seed, n_xdis, n_stdlib, only_tags=None, outdir=None, workers=8):
    """Compile sources with every producer interpreter. Returns [BaseFile]."""
    outdir = outdir or os.path.join(core.scratch_dir(), "produced")
    os.makedirs(outdir, exist_ok=True)
    simple = _list_py(os.path.join(core.REPO_DIR, "test", "simple_source"))
    # hand-written stress programs (line gaps > 127, > 255 constants, big ints, duplicate lambdas, sets, long
    # jumps, non-ASCII text, version-specific syntax); producers that cannot compile one simply skip it
    simple += _list_py(os.path.join(core.VERIF_DIR, "sim", "stress_src"))
    xdis_src = _list_py(core.XDIS_DIR)
    procs = []
    for tag, exe in core.producer_pythons():
        if only_tags is not None and tag not in only_tags:
            continue
        rng = core.SeedStream(core.derive_seed(seed, "corpus", 0, tag))
        srcs = list(simple)
        srcs += rng.sample(xdis_src, min(n_xdis, len(xdis_src)))
        lib = _stdlib_dir(exe)
        if lib and n_stdlib:
            libpy = _list_py(lib, limit_bytes=60 * 1024)
            # top-level modules only plus a few packages: keep it cheap and deterministic
            srcs += rng.sample(libpy, min(n_stdlib, len(libpy)))
        vt = tuple(int(x) for x in tag.split("."))
        modes = ["ts"]
        if vt >= (3, 7):
            modes += ["ch", "uh"]
        jobs = []
        tdir = os.path.join(outdir, tag)
        os.makedirs(tdir, exist_ok=True)
        for k, src in enumerate(srcs):
            # hash-mode variants only for a deterministic third of the files
            for mode in modes:
                if mode != "ts" and k % 3 != 0:
                    continue
                stem = "%03d_%s" % (k, os.path.basename(src)[:-3])
                dst = os.path.join(tdir, "%s.%s.pyc" % (stem, mode))
                jobs.append([src, dst, mode])
            if vt >= (3, 11) and os.path.basename(src) in ("s05_jumps.py", "s05b_with.py", "s07g_exc311.py",
                                                          "s07c_async35.py", "04_raise.py"):
                stem = "%03d_%s" % (k, os.path.basename(src)[:-3])
                jobs.append([src, os.path.join(tdir, "%s.exc.pyc" % stem), "exc"])
            if vt >= (3, 8) and k % 7 == 3:
                stem = "%03d_%s" % (k, os.path.basename(src)[:-3])
                jobs.append([src, os.path.join(tdir, "%s.badpath.pyc" % stem), "badpath"])
                jobs.append([src, os.path.join(tdir, "%s.dictconst.pyc" % stem), "dictconst"])
            if vt < (3, 0) and k % 6 == 0:
                stem = "%03d_%s" % (k, os.path.basename(src)[:-3])
                jobs.append([src, os.path.join(tdir, "%s.uset.pyc" % stem), "uset"])
            if k % 5 == 2 and vt >= (3, 8):
                stem = "%03d_%s" % (k, os.path.basename(src)[:-3])
                jobs.append([src, os.path.join(tdir, "%s.dup.pyc" % stem), "dup"])
            if k % 4 == 1:
                # the same program stored under another source path: value-equal code, different co_filename
                stem = "%03d_%s" % (k, os.path.basename(src)[:-3])
                jobs.append([src, os.path.join(tdir, "%s.alt.pyc" % stem), "ts", "alt/"])
        spec = os.path.join(tdir, "spec.json")
        resf = os.path.join(tdir, "res.json")
        with open(spec, "w") as f:
            json.dump({"jobs": jobs, "dfile_prefix": "src/"}, f)
        script = os.path.join(tdir, "producer.py")
        with open(script, "w") as f:
            f.write(_PRODUCER_SCRIPT)
        env = {"PATH": os.environ.get("PATH", ""), "PYTHONHASHSEED": "0", "TZ": "UTC", "LC_ALL": "C.UTF-8",
               "PYTHONDONTWRITEBYTECODE": "1", "PYTHONWARNINGS": "ignore", "HOME": os.environ.get("HOME", "/root")}
        p = subprocess.Popen([exe, "-B", "-s", script, spec, resf], env=env,  # no -E: PYTHONHASHSEED=0 must reach the producer
                             stdout=subprocess.DEVNULL, stderr=subprocess.DEVNULL)
        procs.append((tag, p, resf))
    out = []
    for tag, p, resf in procs:
        try:
            p.wait(timeout=300)
        except subprocess.TimeoutExpired:
            p.kill()
            p.wait()
            continue
        try:
            with open(resf) as f:
                res = json.load(f)
        except Exception:
            continue
        for dst in sorted(res):
            try:
                with open(dst, "rb") as f:
                    data = f.read()
            except OSError:
                continue
            if 50 <= len(data) <= MAX_FILE:
                mode = dst.rsplit(".", 2)[-2]
                out.append(BaseFile(os.path.basename(dst), dst, data, "produced:%s:%s" % (tag, mode)))
    return out


# ------------------------------------------------------------------------ read map


class RecordingReader:
    """File-object wrapper at the reader seam: records (offset, size) of every read."""

    def __init__(self, data):
        import io

        self._f = io.BytesIO(data)
        self.reads = []

    def read(self, n=-1):
        pos = self._f.tell()
        if n is None or n < 0 or n > (1 << 20):
            b = self._f.read()
        else:
            b = self._f.read(n)
        self.reads.append((pos, len(b)))
        return b

    def seek(self, *a):
        return self._f.seek(*a)

    def tell(self):
        return self._f.tell()

    def close(self):
        pass


def read_map(data, name="x.pyc"):
    """Fault-free read map through the reader seam with the fast path skipped.

    Returns sorted unique (offset, size) with size in (1, 2, 4, 8); [] when the loader
    does not get as far as reading fields (e.g. unsupported magic).  Runs in the caller's
    process: callers use it inside forked children only.
    """
    import xdis.load as xl

    saved = xl.PYTHON_MAGIC_INT
    rr = RecordingReader(data)
    old_err = sys.stderr
    try:
        xl.PYTHON_MAGIC_INT = -1
        sys.stderr = _Sink()
        try:
            xl.load_module_from_file_object(rr, filename=name)
        except BaseException:
            pass
    finally:
        xl.PYTHON_MAGIC_INT = saved
        sys.stderr = old_err
    seen = set()
    for off, n in rr.reads:
        if n in (1, 2, 4, 8) and off + n <= len(data):
            seen.add((off, n))
    return sorted(seen)


def object_map(data):
    """{offset of an object's type code: reference-table slots taken before it} of the fault-free parse, obtained
    by observing xdis's own unmarshaller (a subclass that only records).  Used solely to aim reference bombs;
    returns {} when the tree under test no longer has that shape (the simulator then falls back to an estimate)."""
    import io
    import struct

    try:
        import xdis.unmarshal as um
        from xdis.magics import magic_int2tuple

        magic = struct.unpack("<H", data[:2])[0]
        ver = magic_int2tuple(magic)
        hl = 16 if (ver >= (3, 7) or magic == 3439) else 12 if (3200 <= magic < 20121 and ver >= (1, 5)) else 8
        rec = {}
        fp = io.BytesIO(data)
        fp.seek(hl)

        class Obs(um._VersionIndependentUnmarshaller):
            def r_object(self, bytes_for_s=False):
                rec[self.fp.tell()] = len(self.internObjects)
                return um._VersionIndependentUnmarshaller.r_object(self, bytes_for_s=bytes_for_s)

        old = sys.stderr
        sys.stderr = _Sink()
        try:
            Obs(fp, magic, False, {}).load()
        finally:
            sys.stderr = old
        return rec
    except BaseException:
        return {}


class _Sink:
    def __init__(self):
        self.n = 0

    def write(self, s):
        self.n += len(s)
        return len(s)

    def flush(self):
        pass

    def isatty(self):
        return False


Sink = _Sink
