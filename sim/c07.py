# C07 - results do not depend on the host Python or on which loader path is taken.
#
# Simulated world: the host interpreters able to import /repo's xdis are replica nodes
# that all receive the same stored file; on a node whose own magic equals the file's, the
# marshal fast path is a buggify site that the simulator takes or skips.  All (host, arm)
# results for one file must agree in header, code tree, instruction stream, labels, line
# starts, exception entries and listing text (banner and addresses exempted).
#
# Python 3.8 syntax.

import json
import os
import subprocess
import sys
import threading
import time

from sim import canon, core, corpus

PROP = "C07"
FORMATS = ["classic", "bytes", "extended", "extended-bytes", "xasm", "header"]
SMALL_MAX_CO = 1200
SMALL_TOTAL = 6000

W = {"bases": [], "info": [], "rundir": None, "hosts": [], "host_magic": {}}


# ------------------------------------------------------------------------ file info


def _info_child(lo, hi):
    from xdis.codetype.base import iscode
    from xdis.load import load_module

    out = []
    old = sys.stderr
    sys.stderr = corpus.Sink()
    d = os.path.join(W["rundir"], "info-%d" % os.getpid())
    os.makedirs(d, exist_ok=True)
    try:
        for k in range(lo, hi):
            b = W["bases"][k]
            p = os.path.join(d, b.name)
            with open(p, "wb") as f:
                f.write(b.data)
            try:
                version, ts, magic_int, co, is_pypy, size, sip = load_module(p)
                mx = tot = n = 0
                stack = [co]
                while stack:
                    c = stack.pop()
                    n += 1
                    mx = max(mx, len(c.co_code))
                    tot += len(c.co_code)
                    stack.extend(x for x in c.co_consts if iscode(x))
                out.append({"ok": True, "version": list(version[:2]), "max": mx, "total": tot, "n": n})
            except BaseException as e:
                out.append({"ok": False, "err": type(e).__name__})
            try:
                os.unlink(p)
            except OSError:
                pass
    finally:
        sys.stderr = old
        try:
            os.rmdir(d)
        except OSError:
            pass
    return out


def _info_job(c):
    r = core.fork_call(_info_child, c, timeout=900)
    if r.status != "ok":
        raise core.HarnessError("info child failed: %r %s" % (r, r.value))
    return r.value


# -------------------------------------------------------------------------- node runs


# the time zone is part of the pinned environment, but which zone is pinned is a seeded choice: a host that prints
# times in UTC while the others print local time is invisible under TZ=UTC
TZ_CHOICES = ["JST-9", "EST5EDT", "NPT-5:45"]  # never UTC: "local time" and "UTC" must not coincide


def _run_node(exe, jobs, tag, results, errors):
    spec = os.path.join(W["rundir"], "jobs-%s.json" % tag)
    outp = os.path.join(W["rundir"], "out-%s.json" % tag)
    with open(spec, "w") as f:
        json.dump({"jobs": jobs, "rundir": W["rundir"]}, f)
    try:
        p = subprocess.run([exe, "-B", "-s", os.path.join(core.VERIF_DIR, "sim", "node.py"), spec, outp],
                           env=core.child_env({"TZ": W.get("tz", "UTC")}), stdout=subprocess.PIPE,
                           stderr=subprocess.PIPE, timeout=60 + 30 * len(jobs))
        if p.returncode != 0:
            errors.append("node %s exited %d: %s" % (tag, p.returncode, p.stderr.decode(errors="replace")[-500:]))
            return
        with open(outp) as f:
            results[tag] = json.load(f)
    except Exception as e:
        errors.append("node %s: %r" % (tag, e))
    finally:
        for pth in (spec, outp):
            try:
                os.unlink(pth)
            except OSError:
                pass


def run_nodes(jobs_by_host, workers):
    """jobs_by_host: {host tag: [job]}.  Returns {host: {job id: [arm results]}}"""
    tasks = []
    nhosts = max(1, len(jobs_by_host))
    per_host = max(1, workers // nhosts + 1)
    exes = dict(W["hosts"])
    for host in sorted(jobs_by_host):
        jobs = jobs_by_host[host]
        if not jobs:
            continue
        nsh = min(per_host, max(1, len(jobs) // 4))
        parts = [[] for _ in range(nsh)]
        solo = [j for j in jobs if j.get("group") is None]
        for k, j in enumerate(solo):
            parts[k % nsh].append(j)
        grouped = {}
        for j in jobs:
            if j.get("group") is not None:
                grouped.setdefault(j["group"], []).append(j)
        for k, g in enumerate(sorted(grouped)):
            parts[k % nsh].extend(grouped[g])
        for s, part in enumerate(parts):
            if part:
                tasks.append((host, s, part))
    results = {}
    errors = []
    sem = threading.Semaphore(workers)
    threads = []

    def runner(host, s, part):
        with sem:
            _run_node(exes[host], part, "%s-%d" % (host, s), results, errors)

    for host, s, part in tasks:
        t = threading.Thread(target=runner, args=(host, s, part))
        t.start()
        threads.append(t)
    for t in threads:
        t.join()
    if errors:
        raise core.HarnessError("; ".join(errors[:3]))
    merged = {}
    for tag in sorted(results):
        r = results[tag]
        m = merged.setdefault(r["host"], {})
        for fid, rows in r["results"].items():
            m.setdefault(fid, []).extend(rows)
    for tag in sorted(results):
        r = results[tag]
        m = merged.setdefault(r["host"], {})
        for fid, rows in (r.get("shared") or {}).items():
            m.setdefault(fid, []).extend(rows)
    return merged


# --------------------------------------------------------------------------- planning


def plan_jobs(master, tier):
    """Returns {host: [job]}, {job id: base index}"""
    jobs_by_host = dict((h, []) for h, _ in W["hosts"])
    for bi, b in enumerate(W["bases"]):
        info = W["info"][bi]
        rng = core.SeedStream(core.derive_seed(master, PROP, bi, b.sha))
        small = info.get("ok") and info["max"] <= SMALL_MAX_CO and info["total"] <= SMALL_TOTAL
        if small:
            fmts = list(FORMATS) if tier == "thorough" else sorted(rng.sample(FORMATS, 3))
        else:
            fmts = ["header"]
        control_skip = rng.chance(1, 16)
        for host, _ in W["hosts"]:
            arms = ["default"]
            if b.magic_int == W["host_magic"][host] or control_skip:
                arms.append("skip")
            jobs_by_host[host].append({"id": "f%d" % bi, "path": b.path, "name": b.name, "arms": arms,
                                       "formats": fmts, "deep": bool(small)})
    # second pass, "long-lived replica": host-magic files are decoded again on their own host (native path) and on
    # one seeded other host (portable path), several files per process, so that state kept by one path only
    # (e.g. a cache keyed on native code objects) shows up as a cross-path divergence
    rng = core.SeedStream(core.derive_seed(master, PROP, 0, "shared"))
    hosts = [h for h, _ in W["hosts"]]
    for host in hosts:
        mine = [bi for bi, b in enumerate(W["bases"]) if b.magic_int == W["host_magic"][host] and
                W["info"][bi].get("ok") and W["info"][bi]["max"] <= SMALL_MAX_CO and W["info"][bi]["total"] <= SMALL_TOTAL]
        if not mine:
            continue
        # siblings (same program stored under another path / invalidation mode) next to each other
        mine.sort(key=lambda bi: (W["bases"][bi].name.split(".")[0], W["bases"][bi].name))
        other = rng.choice([h for h in hosts if h != host]) if len(hosts) > 1 else None
        gsize = 6
        for g0 in range(0, len(mine), gsize):
            grp = mine[g0:g0 + gsize]
            for bi in grp:
                W.setdefault("shared_groups", {})[bi] = list(grp)
            fm = sorted(set(["xasm", rng.choice(FORMATS)]))
            for h2 in [host] + ([other] if other else []):
                for bi in grp:
                    b = W["bases"][bi]
                    jobs_by_host[h2].append({"id": "f%d" % bi, "path": b.path, "name": b.name, "arms": ["default"],
                                             "formats": fm, "deep": False, "group": "g%s-%d" % (host, g0)})
    return jobs_by_host


# ------------------------------------------------------------------------- comparison

COMPONENTS = ["outcome", "header", "tree", "instructions", "labels", "linestarts", "exception_entries"]


def _component_values(r):
    """{component: comparable value} for one (host, arm) result"""
    out = {}
    if "node_failure" in r:
        out["outcome"] = "node_failure:%s" % r["node_failure"]
        return out
    out["outcome"] = "raised:" + r["load_exc"] if "load_exc" in r else "loaded"
    if "header" in r:
        out["header"] = json.dumps(r["header"])
    if "tree" in r:
        out["tree"] = r["tree"]
    for k, v in (r.get("deep") or {}).items():
        out[k] = v
    if "xasm_returned_tree" in r:
        out["xasm_returned_tree"] = r["xasm_returned_tree"]
    for fmt, t in (r.get("texts") or {}).items():
        out["text:" + fmt] = t["d"]
    return out


def partition_kind(groups):
    """groups: list of lists of (host, arm, native)"""
    if len(groups) == 2:
        nat = [set(x[2] for x in g) for g in groups]
        if nat[0] == {True} and nat[1] == {False} or nat[0] == {False} and nat[1] == {True}:
            return "native-vs-portable"
        hs = [set(_hv(x[0]) for x in g) for g in groups]
        if not (hs[0] & hs[1]):
            lo, hi = (hs[0], hs[1]) if max(hs[0]) < min(hs[1]) else (hs[1], hs[0]) if max(hs[1]) < min(hs[0]) else (None, None)
            if lo is not None:
                return "hosts<=%d.%d|hosts>=%d.%d" % (max(lo) + min(hi))
            return "by-host"
    hosts_mixed = any(len(set(_hv(x[0]) for x in g)) > 0 for g in groups)
    return "%d-way" % len(groups) if hosts_mixed else "other"


def _hv(tag):
    p = tag.split(".")
    return (int(p[0]), int(p[1]))


def compare_file(bi, per_host):
    """per_host: {host: [arm results]} for one file.  Returns list of divergences."""
    rows = []
    for host in sorted(per_host, key=_hv):
        for r in per_host[host]:
            rows.append((host, r["arm"], bool(r.get("native")), _component_values(r), r))
    comps = sorted(set(k for row in rows for k in row[3]))
    divs = []
    for comp in comps:
        vals = {}
        for host, arm, native, cv, _ in rows:
            if comp in cv:
                vals.setdefault(cv[comp], []).append((host, arm, native))
        if len(vals) > 1:
            groups = sorted(vals.values(), key=lambda g: (-len(g), g))
            divs.append({"bi": bi, "component": comp, "partition": partition_kind(groups),
                         "groups": [["%s/%s%s" % (h, a, "*" if n else "") for h, a, n in g] for g in groups]})
    return divs, rows


# ------------------------------------------------------------------ structural diffing


def tree_diff(a, b, path="", out=None, limit=6):
    """paths (indices starred) at which two canonical JSON structures differ"""
    if out is None:
        out = []
    if len(out) >= limit:
        return out
    if type(a) != type(b):
        out.append((path, _short(a), _short(b)))
        return out
    if isinstance(a, dict):
        for k in sorted(set(a) | set(b)):
            if a.get(k) != b.get(k):
                tree_diff(a.get(k), b.get(k), path + "." + str(k), out, limit)
        return out
    if isinstance(a, list):
        # canonical values are [kind, payload...] lists or plain lists of values
        if a and b and isinstance(a[0], str) and isinstance(b[0], str) and a[0] != b[0]:
            out.append((path, "kind " + a[0], "kind " + b[0]))
            return out
        if len(a) != len(b):
            out.append((path, "len %d" % len(a), "len %d" % len(b)))
            return out
        for k, (x, y) in enumerate(zip(a, b)):
            if x != y:
                tree_diff(x, y, path + "[*]", out, limit)
        return out
    if a != b:
        out.append((path, _short(a), _short(b)))
    return out


def _short(x):
    s = json.dumps(x) if not isinstance(x, str) else x
    return s if len(s) <= 60 else s[:57] + "..."


def text_diff(a, b, limit=4):
    la, lb = a.split("\n"), b.split("\n")
    import difflib

    out = []
    sm = difflib.SequenceMatcher(None, la, lb, autojunk=False)
    for tag, i1, i2, j1, j2 in sm.get_opcodes():
        if tag == "equal":
            continue
        out.append({"a": la[i1:i2][:3], "b": lb[j1:j2][:3]})
        if len(out) >= limit:
            break
    return out


# ------------------------------------------------------------------------------ driver

TIERS = {
    "quick": {"produce": (4, 12), "wall_cap": 150, "max_files": 760},
    "thorough": {"produce": (40, 60), "wall_cap": 3000, "max_files": 100000},
}


def _magic_table_child():
    import xdis.magics as m

    out = {}
    for mi, v in m.magicint2version.items():
        try:
            out[str(int(mi))] = list(m.magic_int2tuple(mi))[:2]
        except Exception:
            pass
    return out


def magic_twins(master, produced):
    """Header fault as a workload: the payload of a host-magic file stored under every *sibling* magic number
    (another magic that maps to the same Python release, e.g. 3.8.0b4's 3413 vs 3.8.0a1's 3400).  Whatever the
    loader makes of such a file, every host and both paths must make the same of it."""
    r = core.fork_call(_magic_table_child, timeout=120)
    if r.status != "ok":
        return []
    table = dict((int(k), tuple(v)) for k, v in r.value.items())
    out = []
    tdir = os.path.join(W["rundir"], "twins")
    os.makedirs(tdir, exist_ok=True)
    rng = core.SeedStream(core.derive_seed(master, PROP, 0, "twins"))
    for host in sorted(W["host_magic"]):
        hm = W["host_magic"][host]
        ver = table.get(hm)
        if ver is None:
            continue
        sibs = sorted(m for m, v in table.items() if v == ver and m != hm)
        mine = [b for b in produced if b.magic_int == hm and len(b.data) < 1500 and ".ts." in b.name]
        if not sibs or not mine:
            continue
        for b in rng.sample(mine, min(2, len(mine))):
            for m in sibs[:8]:
                data = int(m).to_bytes(2, "little") + b.data[2:]
                name = "twin%d_%s" % (m, b.name)
                pth = os.path.join(tdir, "%s-%s" % (host, name))
                with open(pth, "wb") as f:
                    f.write(data)
                out.append(corpus.BaseFile(name, pth, data, "twin:%d:of:%d" % (m, hm)))
    return out


def _reencode_child(paths):
    """equivalent re-encodings of valid files: a flagged 32-bit int 0 (e9 00 00 00 00) at an object start becomes
    a flagged zero-size long (ec 00 00 00 00) - the same value for every marshal reader"""
    out = []
    for p in paths:
        with open(p, "rb") as f:
            data = f.read()
        om = corpus.object_map(data)
        hits = [o for o in sorted(om) if data[o:o + 5] == b"\xe9\x00\x00\x00\x00"]
        if hits:
            b = bytearray(data)
            for o in hits:
                b[o] = 0xEC
            out.append([p, core.b64(bytes(b)), len(hits)])
    return out


def reencoded_twins(produced):
    cands = [b.path for b in produced if b.magic_int in set(W["host_magic"].values()) and ".ts." in b.name and
             len(b.data) < 6000][:400]
    r = core.fork_call(_reencode_child, (cands,), timeout=300)
    if r.status != "ok":
        return []
    out = []
    tdir = os.path.join(W["rundir"], "reenc")
    os.makedirs(tdir, exist_ok=True)
    by_path = dict((b.path, b) for b in produced)
    for p, b64, n in r.value[:40]:
        src = by_path[p]
        data = core.unb64(b64)
        name = "longzero_" + src.name
        pth = os.path.join(tdir, "%d-%s" % (src.magic_int, name))
        with open(pth, "wb") as f:
            f.write(data)
        out.append(corpus.BaseFile(name, pth, data, "reencoded:longzero:%d" % n))
    return out


def prepare(master, tier, cfg):
    core.verify_xdis_origin()
    W["rundir"] = os.path.join(core.scratch_dir(), "c07")
    os.makedirs(W["rundir"], exist_ok=True)
    hosts = core.host_pythons()
    if not hosts:
        hosts = [("%d.%d.%d" % sys.version_info[:3], sys.executable)]
    W["hosts"] = hosts
    # host magic of every node
    for tag, exe in hosts:
        p = subprocess.run([exe, "-B", "-s", "-c", "import xdis.magics as m; print(m.PYTHON_MAGIC_INT)"],
                           env=core.child_env(), stdout=subprocess.PIPE, stderr=subprocess.PIPE, timeout=120)
        if p.returncode != 0:
            raise core.HarnessError("host %s cannot import xdis: %s" % (tag, p.stderr.decode()[-300:]))
        W["host_magic"][tag] = int(p.stdout.decode().strip().splitlines()[-1])
    W["tz"] = core.SeedStream(core.derive_seed(master, PROP, 0, "tz")).choice(TZ_CHOICES)
    produced = corpus.produce_corpus(master, cfg["produce"][0], cfg["produce"][1])
    bases = corpus.repo_corpus() + produced
    bases += magic_twins(master, produced)
    bases += reencoded_twins(produced)
    bases.sort(key=lambda b: (b.origin, b.path))
    # dedupe by content
    seen = set()
    uniq = []
    for b in bases:
        if b.sha not in seen:
            seen.add(b.sha)
            uniq.append(b)
    bases = uniq
    if len(bases) > cfg["max_files"]:
        # priority tiers, then a seeded sample of the rest: every repo file; the stress programs from EVERY producer
        # (they carry the unusual constants and layouts; 2.7 / 3.6 / 3.7 have no host of their own); sibling-magic
        # twins; the artificial variants; then host-magic files; then whatever fits
        rng = core.SeedStream(core.derive_seed(master, PROP, 0, "subset"))
        hm = set(W["host_magic"].values())

        def tier(b):
            stress = "_s0" in b.name
            if b.origin == "repo":
                return 0
            if stress and (".ts." in b.name):
                return 1
            if b.origin.startswith("twin") or b.origin.startswith("reencoded"):
                return 2
            if stress or any(x in b.name for x in (".dup.", ".exc.", ".uset.", ".badpath.", ".dictconst.")) or \
                    b.origin.startswith("reencoded"):
                return 3
            if b.magic_int in hm:
                return 4
            return 5

        tiers = {}
        for b in bases:
            tiers.setdefault(tier(b), []).append(b)
        keep = []
        for t in sorted(tiers):
            room = cfg["max_files"] - len(keep)
            if room <= 0:
                break
            grp = tiers[t]
            keep += grp if len(grp) <= room else rng.sample(grp, room)
        bases = sorted(keep, key=lambda b: (b.origin, b.path))
    W["bases"] = bases
    n = len(bases)
    step = max(1, (n + 15) // 16)
    info = []
    for part in core.run_sharded(_info_job, [(lo, min(n, lo + step)) for lo in range(0, n, step)],
                                 core.default_workers()):
        info.extend(part)
    W["info"] = info
    return produced


def explore(opts):
    """development aid: print the divergence classes with one detailed example each"""
    t0 = time.time()
    tier, master = opts["tier"], opts["seed"]
    cfg = dict(TIERS[tier])
    prepare(master, tier, cfg)
    workers = opts.get("workers") or core.default_workers()
    jobs = plan_jobs(master, tier)
    core.log("[C07] %d files, hosts %s, prepared %.1fs" % (len(W["bases"]), [h for h, _ in W["hosts"]], time.time() - t0))
    res = run_nodes(jobs, workers)
    core.log("[C07] nodes done %.1fs" % (time.time() - t0))
    classes = {}
    for bi in range(len(W["bases"])):
        per_host = dict((h, res[h]["f%d" % bi]) for h in res if "f%d" % bi in res[h])
        divs, rows = compare_file(bi, per_host)
        for d in divs:
            comp = d["component"]
            key = (comp, d["partition"])
            classes.setdefault(key, []).append(d)
    for key in sorted(classes):
        ds = classes[key]
        ds.sort(key=lambda d: len(W["bases"][d["bi"]].data))
        print("CLASS", key, len(ds), "files; smallest:", W["bases"][ds[0]["bi"]].path, ds[0]["groups"])
    return classes, res


def detail_for(bi, divs, workers):
    """second pass with full canonical forms for one file; returns {component: diff description}"""
    b = W["bases"][bi]
    info = W["info"][bi]
    comps = set(d["component"] for d in divs)
    fmts = sorted(c.split(":", 1)[1] for c in comps if c.startswith("text:"))
    deep = any(c in ("instructions", "labels", "linestarts", "exception_entries") for c in comps)
    jobs = {}
    shared = any("@shared" in lab for d in divs for g in d["groups"] for lab in g)
    grp = (W.get("shared_groups") or {}).get(bi) if shared else None
    for host, _ in W["hosts"]:
        arms = ["default"]
        if b.magic_int == W["host_magic"][host]:
            arms.append("skip")
        jobs[host] = [{"id": "f%d" % bi, "path": b.path, "name": b.name, "arms": arms, "formats": fmts,
                       "deep": deep, "detail": True}]
        if grp:
            for gbi in grp:
                gb = W["bases"][gbi]
                jobs[host].append({"id": "f%d" % gbi, "path": gb.path, "name": gb.name, "arms": ["default"],
                                   "formats": fmts, "deep": False, "detail": True, "group": "detail"})
    res = run_nodes(jobs, workers)
    rows = {}
    for host in res:
        for r in res[host]["f%d" % bi]:
            rows["%s/%s%s" % (host, r["arm"], "*" if r.get("native") else "")] = r
    out = {}
    for d in divs:
        comp = d["component"]
        ga, gb = d["groups"][0][0], d["groups"][1][0]
        ra, rb = rows.get(ga), rows.get(gb)
        if ra is None or rb is None:
            out[comp] = {"error": "rows missing in detail pass"}
            continue
        if comp == "tree":
            out[comp] = {"a": ga, "b": gb, "diff": tree_diff(ra.get("tree_full"), rb.get("tree_full"))}
        elif comp in ("instructions", "labels", "linestarts", "exception_entries"):
            fa = [e.get(comp) for e in ra.get("deep_full", [])]
            fb = [e.get(comp) for e in rb.get("deep_full", [])]
            out[comp] = {"a": ga, "b": gb, "diff": tree_diff(fa, fb)}
        elif comp.startswith("text:"):
            fmt = comp.split(":", 1)[1]
            ta = ra.get("texts", {}).get(fmt, {}).get("full", "")
            tb = rb.get("texts", {}).get(fmt, {}).get("full", "")
            out[comp] = {"a": ga, "b": gb, "diff": text_diff(ta, tb)}
        else:
            out[comp] = {"a": ga, "b": gb, "va": _component_values(ra).get(comp), "vb": _component_values(rb).get(comp)}
    return out


# ---------------------------------------------------------------------- check proper

NORMALISERS = ["code_repr", "set_order", "unicode_escape"]


def _text_partitions(rows, comp, enabled):
    """Returns (diverges_raw, explained_by) where explained_by is the list of normaliser names
    that make every (host, arm) agree, or None when nothing enabled explains the difference."""
    fmt = comp.split(":", 1)[1]
    recs = []
    for host, arm, native, cv, r in rows:
        t = (r.get("texts") or {}).get(fmt)
        if t is not None:
            recs.append(t)
    if len(set(t["d"] for t in recs)) <= 1:
        return False, []
    names_all = ["code_repr", "set_order", "unicode_escape"]
    trials = []
    for mask in sorted(range(1, 1 << len(names_all)), key=lambda m: (bin(m).count("1"), m)):
        trials.append([n for k, n in enumerate(names_all) if mask & (1 << k)])
    for names in trials:
        if not all(n in enabled for n in names):
            continue
        key = "n:" + "+".join(names)
        if all(key in t for t in recs) and len(set(t[key] for t in recs)) == 1:
            if "set_order" in names or "unicode_escape" in names:
                # D6 / D20 explain differences between HOSTS only: the arms of one host must already agree
                # without them
                base_key = "n:code_repr" if "code_repr" in names else "d"
                per_host = {}
                for host, arm, native, cv, r in rows:
                    t = (r.get("texts") or {}).get(fmt)
                    if t is not None:
                        per_host.setdefault(host, set()).add(t.get(base_key))
                if any(len(v) > 1 for v in per_host.values()):
                    continue
            return True, names
    return True, None


def main(opts):
    t0 = time.time()
    tier, master = opts["tier"], opts["seed"]
    cfg = dict(TIERS[tier])
    workers = opts.get("workers") or core.default_workers()
    core.log("[C07] tier=%s seed=%d workers=%d" % (tier, master, workers))
    produced = prepare(master, tier, cfg)
    hosts = [h for h, _ in W["hosts"]]
    core.log("[C07] %d files (%d produced at check time), hosts %s, prepared in %.1fs" % (
        len(W["bases"]), len(produced), hosts, time.time() - t0))
    jobs = plan_jobs(master, tier)
    res = run_nodes(jobs, workers)
    t_nodes = time.time() - t0
    findings = core.load_known_findings()
    enabled = {}
    for f in findings:
        if f.get("property") == PROP and f.get("status") == "known" and f.get("match", {}).get("normaliser"):
            enabled[f["match"]["normaliser"]] = f
    known_hits = {}
    viols = []  # (bi, divergence dict)
    stats = {"cells": 0, "files_compared": 0, "fast_path_taken": {}, "fast_path_skipped": {}, "native_rows": 0,
             "deep_files": 0, "text_cells": 0, "arms_total": 0, "probes": {}, "load_raises_everywhere": 0,
             "node_failures": 0, "banner_removed": 0, "stdout_rows": 0}
    distinct = set()
    harness = []
    samples = []
    for bi, b in enumerate(W["bases"]):
        fid = "f%d" % bi
        per_host = dict((h, res[h][fid]) for h in res if fid in res[h])
        if not per_host:
            continue
        divs, rows = compare_file(bi, per_host)
        stats["files_compared"] += 1
        stats["arms_total"] += len(rows)
        host_magic_file = False
        for host, arm, native, cv, r in rows:
            if "node_failure" in r:
                stats["node_failures"] += 1
                continue
            if r.get("fast_path"):
                stats["fast_path_taken"][host] = stats["fast_path_taken"].get(host, 0) + 1
                if arm == "skip":
                    harness.append("%s: fast path taken although skipped on %s" % (b.path, host))
            elif arm == "skip" and b.magic_int == W["host_magic"][host]:
                stats["fast_path_skipped"][host] = stats["fast_path_skipped"].get(host, 0) + 1
            if arm == "default" and b.magic_int == W["host_magic"][host]:
                host_magic_file = True
                if not r.get("fast_path") and "load_exc" not in r:
                    harness.append("%s: fast path not taken on its own host %s" % (b.path, host))
            if native:
                stats["native_rows"] += 1
            stats["text_cells"] += len(r.get("texts") or {})
            stats["banner_removed"] += sum(t.get("banner", 0) for t in (r.get("texts") or {}).values())
            if r.get("stdout_bytes"):
                stats["stdout_rows"] += 1
        if len(per_host) >= 2:
            distinct.add(b.sha)
        if any(r.get("deep") for _, _, _, _, r in rows):
            stats["deep_files"] += 1
        info = W["info"][bi]
        if host_magic_file:
            _p(stats, "host-magic file: fast path and skipped path both compared")
        if b.name.endswith("pypy38.pyc") or "pypy" in b.path:
            _p(stats, "PyPy file")
        if info.get("ok") and tuple(info["version"]) < (2, 0):
            _p(stats, "pre-2.0 file")
        if info.get("ok") and tuple(info["version"]) >= (3, 11):
            _p(stats, "3.11+ file (exception table, new line table)")
        if ".ch." in b.name or ".uh." in b.name:
            _p(stats, "hash-based pyc")
        if all("load_exc" in r for _, _, _, _, r in rows):
            stats["load_raises_everywhere"] += 1
        if len(samples) < 3 and host_magic_file:
            samples.append({"file": b.path, "sha256": b.sha, "magic_int": b.magic_int,
                            "rows": ["%s/%s%s fast_path=%s" % (h, a, "*" if n else "", r.get("fast_path"))
                                     for h, a, n, cv, r in rows]})
        for d in divs:
            comp = d["component"]
            if comp.startswith("text:"):
                raw, explained = _text_partitions(rows, comp, enabled)
                if raw and explained:
                    for nname in explained:
                        fidk = enabled[nname]["id"]
                        known_hits[fidk] = known_hits.get(fidk, 0) + 1
                    continue
            viols.append((bi, d))
    # ---- unexplained divergences: one detailed replay per class, smallest file first
    lines = []
    replays = []
    by_class = {}
    for bi, d in viols:
        comp = d["component"]
        kind = _file_kind(W["bases"][bi])
        if kind == "dup" and comp == "text:xasm":
            # artificial files (equal-but-distinct code constants) in the address-named xasm format: own class
            cls = "text:xasm|%s|dup" % d["partition"]
        else:
            cls = "%s|%s" % (comp if not comp.startswith("text:") else "text", d["partition"])
        by_class.setdefault(cls, []).append((bi, d))
    n_unknown = 0
    for cls in sorted(by_class):
        group = sorted(by_class[cls], key=lambda x: (len(W["bases"][x[0]].data), W["bases"][x[0]].path))
        bi, d = group[0]
        b = W["bases"][bi]
        try:
            det = detail_for(bi, [d], workers)
        except core.HarnessError as e:
            det = {"error": str(e)}
        known = None
        sig = {"class": cls, "component": d["component"], "partition": d["partition"],
               "pattern": _pattern(det.get(d["component"], {})), "file_kind": _file_kind(b)}
        for f in findings:
            m = f.get("match", {})
            if f.get("property") == PROP and f.get("status") == "known" and "normaliser" not in m and \
                    all(sig.get(k) == v for k, v in m.items()):
                known = f
        if known is not None:
            known_hits[known["id"]] = known_hits.get(known["id"], 0) + len(group)
            continue
        n_unknown += 1
        os.makedirs(core.REPLAY_DIR, exist_ok=True)
        path = os.path.join(core.REPLAY_DIR, "C07-%d-%s-%d.json" % (master, core.sha256_hex(cls.encode())[:8], len(replays)))
        core.write_json_atomic(path, {
            "property": PROP, "master_seed": master, "signature": sig, "file": b.describe(), "name": b.name,
            "file_b64": core.b64(b.data), "groups": d["groups"], "difference": det,
            "files_in_class": len(group), "other_files": [W["bases"][x[0]].path for x in group[1:6]],
            "shared_group": [{"name": W["bases"][g].name, "file_b64": core.b64(W["bases"][g].data)}
                             for g in ((W.get("shared_groups") or {}).get(bi) or [])]
            if any("@shared" in lab for gg in d["groups"] for lab in gg) else [],
            "minimisation": "smallest of %d files showing the class" % len(group)})
        replays.append(path)
        lines.append("VIOLATION property=%s replay=%s" % (PROP, path))
        core.log("  class %s: %d file(s); smallest %s; groups %s" % (cls, len(group), b.path, d["groups"]))
    for f in findings:
        if f.get("property") == PROP and f.get("status") == "known" and known_hits.get(f["id"]):
            lines.append("KNOWN-FINDING: property=%s %s: %s [%d (file, format) cell(s) in this run]" % (
                PROP, f["id"], f["description"], known_hits[f["id"]]))
    wall = time.time() - t0
    coverage = {
        "evaluations": stats["arms_total"],
        "distinct_nontrivial": len(distinct),
        "rule": "one evaluation = one (file, host, loader arm) decode by the real xdis of /repo in a fork of that "
                "host's node; distinct_nontrivial counts distinct files (by sha256) decoded by >= 2 hosts; "
                "host-magic files are additionally decoded with the fast path taken and skipped on their own host",
        "samples": samples or [{"note": "no host-magic sample"}],
        "files": stats["files_compared"],
        "hosts": hosts,
        "host_magic": W["host_magic"],
        "time_zone_of_this_run": W.get("tz"),
        "fast_path_taken_per_host": stats["fast_path_taken"],
        "fast_path_skipped_per_host": stats["fast_path_skipped"],
        "rows_with_native_code_object": stats["native_rows"],
        "files_with_instruction_level_comparison": stats["deep_files"],
        "listing_cells_compared": stats["text_cells"],
        "banners_removed": stats["banner_removed"],
        "rows_writing_to_stdout": stats["stdout_rows"],
        "files_on_which_every_arm_raises": stats["load_raises_everywhere"],
        "node_failures": stats["node_failures"],
        "reach_probes": stats["probes"],
        "seeds_per_hour": int(stats["arms_total"] / max(1e-6, t_nodes) * 3600),
        "simulated_time": "no clock in the system under test; %d decode steps" % stats["arms_total"],
        "faults_fired": {"fast path skipped (buggify)": sum(stats["fast_path_skipped"].values())},
        "known_findings_matched": known_hits,
        "known_finding_normalisers_enabled": sorted(enabled),
        "divergence_classes_unexplained": sorted(by_class),
        "replays": replays,
        "components_real": ["xdis (every module, /repo working tree) on every host",
                            "CPython 3.8 ... 3.13 marshal/dis of each node"],
        "components_stubbed": ["output stream (capturing)", "sys.stdout / sys.stderr"],
        "exhaustive": False,
    }
    core.write_evidence(PROP, tier, master, coverage, wall, n_unknown, [
        "inputs are a corpus (repo files + files compiled at check time by every installed interpreter), not "
        "generated: a decoding error shared by every host and both paths is invisible here",
        "environment other than the interpreter (TZ, hash seed, locale) is pinned",
        "instruction-level and listing comparison only for files whose largest code object is <= %d bytes" % SMALL_MAX_CO,
    ])
    for ln in lines:
        print(ln)
    core.log("[C07] %d files x %d hosts, %d (file,host,arm) rows, %d listing cells, %d divergence class(es) left after the normalisers (%d not matched by a known finding), %.1fs" % (
        stats["files_compared"], len(hosts), stats["arms_total"], stats["text_cells"], len(by_class), n_unknown, wall))
    if harness:
        core.log("[C07] HARNESS-ERROR: %s" % harness[:3])
        return core.EXIT_HARNESS
    if stats["node_failures"]:
        core.log("[C07] HARNESS-ERROR: %d node failures" % stats["node_failures"])
        return core.EXIT_HARNESS
    return core.EXIT_VIOLATION if n_unknown else core.EXIT_OK


def _file_kind(b):
    o = b.origin
    if o.startswith("produced:"):
        return o.rsplit(":", 1)[-1]  # ts / ch / uh / alt / dup
    return o.split(":", 1)[0]        # repo / twin / replay


def _p(stats, name):
    stats["probes"][name] = stats["probes"].get(name, 0) + 1


def _pattern(det):
    """field-path pattern of the first difference (indices starred) or a text-line pattern"""
    diff = det.get("diff")
    if not diff:
        return None
    first = diff[0]
    if isinstance(first, (list, tuple)):
        return "%s: %s vs %s" % (first[0], first[1], first[2])
    if isinstance(first, dict):
        import re

        def absn(lines):
            return [re.sub(r"\d+", "N", ln.strip())[:80] for ln in lines[:1]]

        return "%s vs %s" % (absn(first.get("a", [])), absn(first.get("b", [])))
    return None


def replay(path):
    with open(path) as f:
        r = json.load(f)
    cfg = dict(TIERS["quick"])
    core.verify_xdis_origin()
    W["rundir"] = os.path.join(core.scratch_dir(), "c07")
    os.makedirs(W["rundir"], exist_ok=True)
    W["hosts"] = core.host_pythons() or [("%d.%d.%d" % sys.version_info[:3], sys.executable)]
    for tag, exe in W["hosts"]:
        p = subprocess.run([exe, "-B", "-s", "-c", "import xdis.magics as m; print(m.PYTHON_MAGIC_INT)"],
                           env=core.child_env(), stdout=subprocess.PIPE, stderr=subprocess.PIPE, timeout=120)
        W["host_magic"][tag] = int(p.stdout.decode().strip().splitlines()[-1])
    data = core.unb64(r["file_b64"])
    fpath = os.path.join(W["rundir"], "replay-" + r["name"])
    with open(fpath, "wb") as f:
        f.write(data)
    b = corpus.BaseFile(r["name"], fpath, data, "replay")
    W["bases"] = [b]
    W["info"] = [{"ok": True, "max": 0, "total": 0, "version": [0, 0]}]
    comp = r["signature"]["component"]
    fmts = [comp.split(":", 1)[1]] if comp.startswith("text:") else []
    jobs = {}
    gfiles = []
    for k, g in enumerate(r.get("shared_group") or []):
        gp = os.path.join(W["rundir"], "replay-g%d-%s" % (k, g["name"]))
        with open(gp, "wb") as f:
            f.write(core.unb64(g["file_b64"]))
        gfiles.append((gp, g["name"], core.sha256_hex(core.unb64(g["file_b64"])) == b.sha))
    for host, _ in W["hosts"]:
        arms = ["default"] + (["skip"] if b.magic_int == W["host_magic"][host] else [])
        jobs[host] = [{"id": "f0", "path": fpath, "name": b.name, "arms": arms, "formats": fmts, "deep": True}]
        for k, (gp, gname, is_target) in enumerate(gfiles):
            jobs[host].append({"id": "f0" if is_target else "g%d" % k, "path": gp, "name": gname, "arms": ["default"],
                               "formats": fmts or ["xasm"], "deep": False, "group": "replay"})
    res = run_nodes(jobs, core.default_workers())
    per_host = dict((h, res[h]["f0"]) for h in res)
    divs, rows = compare_file(0, per_host)
    findings = core.load_known_findings()
    enabled = dict((f["match"]["normaliser"], f) for f in findings if f.get("property") == PROP and
                   f.get("status") == "known" and f.get("match", {}).get("normaliser"))
    left = []
    for d in divs:
        if d["component"].startswith("text:"):
            raw, explained = _text_partitions(rows, d["component"], enabled)
            if raw and explained:
                continue
        left.append(d)
    same = [d for d in left if d["component"] == comp]
    if same or left:
        d = (same or left)[0]
        print("reproduced: component %s diverges: %s" % (d["component"], d["groups"]))
        print("VIOLATION property=%s replay=%s" % (PROP, path))
        return core.EXIT_VIOLATION
    print("not reproduced")
    return core.EXIT_OK
