type Alias[T] = list[T]

def ident[T](x: T) -> T:
    return x

class Box[T]:
    def get(self) -> T:
        return self.v
