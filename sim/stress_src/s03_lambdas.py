f = lambda x: x + 1
g = lambda x: x + 1


h = lambda x: (lambda y: y * x)
l1 = [i * 2 for i in range(3)]
l2 = [i * 2 for i in range(3)]
g1 = (i for i in range(3))

def outer(a):
    def inner(b):
        return a + b
    k = lambda c: a * c
    return inner, k
