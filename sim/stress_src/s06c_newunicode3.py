# -*- coding: utf-8 -*-
# code points assigned in Unicode 13, 14, 15: printable for a new host, escaped by repr() on an old one
new13 = "\U0001f978 disguised"
new14 = "\U0001fac3"
new15 = "\U0001fae8 \U0001f6dc"
def f(x="\U0001fae8"):
    return x + "\U00031350"
