# A frozenset constant that holds NaN: the compiler folds 1e999 - 1e999 and turns the set display of an `in`
# test into a frozenset.  hash(nan) is derived from the object's address on 3.10+ hosts.
def f(x):
    return x in {1e999 - 1e999, 1, 2, 3, 4, 5, 6, 7}


def g(x):
    return x in {1e999 - 1e999, "a", "b", None, 2.5, (1, 2)}
