s1 = {i for i in range(3)}
d1 = {i: i * i for i in range(3)}

def gen(n):
    return [(i, j) for i in range(n) for j in range(i) if j % 2]
