def w(f):
    with open(f) as a:
        with open(f) as b:
            return a.read() + b.read()
