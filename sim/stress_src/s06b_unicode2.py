# -*- coding: utf-8 -*-
u1 = u'caf\xe9 \u4e2d'
s1 = 'plain'
b1 = b'\x00\xff' if str is bytes else 'x'
sur = u'\ud800'
sur2 = u'ok \udc80 \ud83d'
mixed = (u'\ud800', u'plain', 'byte\xff')
