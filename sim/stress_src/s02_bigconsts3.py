def many(x):
    t = 0
    t = t + 1000
    t = t + 1001
    t = t + 1002
    t = t + 1003
    t = t + 1004
    t = t + 1005
    t = t + 1006
    t = t + 1007
    t = t + 1008
    t = t + 1009
    t = t + 1010
    t = t + 1011
    t = t + 1012
    t = t + 1013
    t = t + 1014
    t = t + 1015
    t = t + 1016
    t = t + 1017
    t = t + 1018
    t = t + 1019
    t = t + 1020
    t = t + 1021
    t = t + 1022
    t = t + 1023
    t = t + 1024
    t = t + 1025
    t = t + 1026
    t = t + 1027
    t = t + 1028
    t = t + 1029
    t = t + 1030
    t = t + 1031
    t = t + 1032
    t = t + 1033
    t = t + 1034
    t = t + 1035
    t = t + 1036
    t = t + 1037
    t = t + 1038
    t = t + 1039
    t = t + 1040
    t = t + 1041
    t = t + 1042
    t = t + 1043
    t = t + 1044
    t = t + 1045
    t = t + 1046
    t = t + 1047
    t = t + 1048
    t = t + 1049
    t = t + 1050
    t = t + 1051
    t = t + 1052
    t = t + 1053
    t = t + 1054
    t = t + 1055
    t = t + 1056
    t = t + 1057
    t = t + 1058
    t = t + 1059
    t = t + 1060
    t = t + 1061
    t = t + 1062
    t = t + 1063
    t = t + 1064
    t = t + 1065
    t = t + 1066
    t = t + 1067
    t = t + 1068
    t = t + 1069
    t = t + 1070
    t = t + 1071
    t = t + 1072
    t = t + 1073
    t = t + 1074
    t = t + 1075
    t = t + 1076
    t = t + 1077
    t = t + 1078
    t = t + 1079
    t = t + 1080
    t = t + 1081
    t = t + 1082
    t = t + 1083
    t = t + 1084
    t = t + 1085
    t = t + 1086
    t = t + 1087
    t = t + 1088
    t = t + 1089
    t = t + 1090
    t = t + 1091
    t = t + 1092
    t = t + 1093
    t = t + 1094
    t = t + 1095
    t = t + 1096
    t = t + 1097
    t = t + 1098
    t = t + 1099
    t = t + 1100
    t = t + 1101
    t = t + 1102
    t = t + 1103
    t = t + 1104
    t = t + 1105
    t = t + 1106
    t = t + 1107
    t = t + 1108
    t = t + 1109
    t = t + 1110
    t = t + 1111
    t = t + 1112
    t = t + 1113
    t = t + 1114
    t = t + 1115
    t = t + 1116
    t = t + 1117
    t = t + 1118
    t = t + 1119
    t = t + 1120
    t = t + 1121
    t = t + 1122
    t = t + 1123
    t = t + 1124
    t = t + 1125
    t = t + 1126
    t = t + 1127
    t = t + 1128
    t = t + 1129
    t = t + 1130
    t = t + 1131
    t = t + 1132
    t = t + 1133
    t = t + 1134
    t = t + 1135
    t = t + 1136
    t = t + 1137
    t = t + 1138
    t = t + 1139
    t = t + 1140
    t = t + 1141
    t = t + 1142
    t = t + 1143
    t = t + 1144
    t = t + 1145
    t = t + 1146
    t = t + 1147
    t = t + 1148
    t = t + 1149
    t = t + 1150
    t = t + 1151
    t = t + 1152
    t = t + 1153
    t = t + 1154
    t = t + 1155
    t = t + 1156
    t = t + 1157
    t = t + 1158
    t = t + 1159
    t = t + 1160
    t = t + 1161
    t = t + 1162
    t = t + 1163
    t = t + 1164
    t = t + 1165
    t = t + 1166
    t = t + 1167
    t = t + 1168
    t = t + 1169
    t = t + 1170
    t = t + 1171
    t = t + 1172
    t = t + 1173
    t = t + 1174
    t = t + 1175
    t = t + 1176
    t = t + 1177
    t = t + 1178
    t = t + 1179
    t = t + 1180
    t = t + 1181
    t = t + 1182
    t = t + 1183
    t = t + 1184
    t = t + 1185
    t = t + 1186
    t = t + 1187
    t = t + 1188
    t = t + 1189
    t = t + 1190
    t = t + 1191
    t = t + 1192
    t = t + 1193
    t = t + 1194
    t = t + 1195
    t = t + 1196
    t = t + 1197
    t = t + 1198
    t = t + 1199
    t = t + 1200
    t = t + 1201
    t = t + 1202
    t = t + 1203
    t = t + 1204
    t = t + 1205
    t = t + 1206
    t = t + 1207
    t = t + 1208
    t = t + 1209
    t = t + 1210
    t = t + 1211
    t = t + 1212
    t = t + 1213
    t = t + 1214
    t = t + 1215
    t = t + 1216
    t = t + 1217
    t = t + 1218
    t = t + 1219
    t = t + 1220
    t = t + 1221
    t = t + 1222
    t = t + 1223
    t = t + 1224
    t = t + 1225
    t = t + 1226
    t = t + 1227
    t = t + 1228
    t = t + 1229
    t = t + 1230
    t = t + 1231
    t = t + 1232
    t = t + 1233
    t = t + 1234
    t = t + 1235
    t = t + 1236
    t = t + 1237
    t = t + 1238
    t = t + 1239
    t = t + 1240
    t = t + 1241
    t = t + 1242
    t = t + 1243
    t = t + 1244
    t = t + 1245
    t = t + 1246
    t = t + 1247
    t = t + 1248
    t = t + 1249
    t = t + 1250
    t = t + 1251
    t = t + 1252
    t = t + 1253
    t = t + 1254
    t = t + 1255
    t = t + 1256
    t = t + 1257
    t = t + 1258
    t = t + 1259
    t = t + 1260
    t = t + 1261
    t = t + 1262
    t = t + 1263
    t = t + 1264
    t = t + 1265
    t = t + 1266
    t = t + 1267
    t = t + 1268
    t = t + 1269
    t = t + 1270
    t = t + 1271
    t = t + 1272
    t = t + 1273
    t = t + 1274
    t = t + 1275
    t = t + 1276
    t = t + 1277
    t = t + 1278
    t = t + 1279
    t = t + 1280
    t = t + 1281
    t = t + 1282
    t = t + 1283
    t = t + 1284
    t = t + 1285
    t = t + 1286
    t = t + 1287
    t = t + 1288
    t = t + 1289
    t = t + 1290
    t = t + 1291
    t = t + 1292
    t = t + 1293
    t = t + 1294
    t = t + 1295
    t = t + 1296
    t = t + 1297
    t = t + 1298
    t = t + 1299
    t = t + 1300
    t = t + 1301
    t = t + 1302
    t = t + 1303
    t = t + 1304
    t = t + 1305
    t = t + 1306
    t = t + 1307
    t = t + 1308
    t = t + 1309
    t = t + 1310
    t = t + 1311
    t = t + 1312
    t = t + 1313
    t = t + 1314
    t = t + 1315
    t = t + 1316
    t = t + 1317
    t = t + 1318
    t = t + 1319
    return t
BIG = [2147483647, 2147483648, -2147483649, 4294967296, 18446744073709551616, -9223372036854775809, 10**40]
FL = [1e400, -1e400, -0.0, 0.5, 1e-320, 3.141592653589793]
CX = [1j, -2.5+0.125j, 1e400j]

def manybytes(x):
    t = []
    t.append(b'k0')
    t.append('s0')
    t.append(b'k1')
    t.append('s1')
    t.append(b'k2')
    t.append('s2')
    t.append(b'k3')
    t.append('s3')
    t.append(b'k4')
    t.append('s4')
    t.append(b'k5')
    t.append('s5')
    t.append(b'k6')
    t.append('s6')
    t.append(b'k7')
    t.append('s7')
    t.append(b'k8')
    t.append('s8')
    t.append(b'k9')
    t.append('s9')
    t.append(b'k10')
    t.append('s10')
    t.append(b'k11')
    t.append('s11')
    t.append(b'k12')
    t.append('s12')
    t.append(b'k13')
    t.append('s13')
    t.append(b'k14')
    t.append('s14')
    t.append(b'k15')
    t.append('s15')
    t.append(b'k16')
    t.append('s16')
    t.append(b'k17')
    t.append('s17')
    t.append(b'k18')
    t.append('s18')
    t.append(b'k19')
    t.append('s19')
    t.append(b'k20')
    t.append('s20')
    t.append(b'k21')
    t.append('s21')
    t.append(b'k22')
    t.append('s22')
    t.append(b'k23')
    t.append('s23')
    t.append(b'k24')
    t.append('s24')
    t.append(b'k25')
    t.append('s25')
    t.append(b'k26')
    t.append('s26')
    t.append(b'k27')
    t.append('s27')
    t.append(b'k28')
    t.append('s28')
    t.append(b'k29')
    t.append('s29')
    t.append(b'k30')
    t.append('s30')
    t.append(b'k31')
    t.append('s31')
    t.append(b'k32')
    t.append('s32')
    t.append(b'k33')
    t.append('s33')
    t.append(b'k34')
    t.append('s34')
    t.append(b'k35')
    t.append('s35')
    t.append(b'k36')
    t.append('s36')
    t.append(b'k37')
    t.append('s37')
    t.append(b'k38')
    t.append('s38')
    t.append(b'k39')
    t.append('s39')
    t.append(b'k40')
    t.append('s40')
    t.append(b'k41')
    t.append('s41')
    t.append(b'k42')
    t.append('s42')
    t.append(b'k43')
    t.append('s43')
    t.append(b'k44')
    t.append('s44')
    t.append(b'k45')
    t.append('s45')
    t.append(b'k46')
    t.append('s46')
    t.append(b'k47')
    t.append('s47')
    t.append(b'k48')
    t.append('s48')
    t.append(b'k49')
    t.append('s49')
    t.append(b'k50')
    t.append('s50')
    t.append(b'k51')
    t.append('s51')
    t.append(b'k52')
    t.append('s52')
    t.append(b'k53')
    t.append('s53')
    t.append(b'k54')
    t.append('s54')
    t.append(b'k55')
    t.append('s55')
    t.append(b'k56')
    t.append('s56')
    t.append(b'k57')
    t.append('s57')
    t.append(b'k58')
    t.append('s58')
    t.append(b'k59')
    t.append('s59')
    t.append(b'k60')
    t.append('s60')
    t.append(b'k61')
    t.append('s61')
    t.append(b'k62')
    t.append('s62')
    t.append(b'k63')
    t.append('s63')
    t.append(b'k64')
    t.append('s64')
    t.append(b'k65')
    t.append('s65')
    t.append(b'k66')
    t.append('s66')
    t.append(b'k67')
    t.append('s67')
    t.append(b'k68')
    t.append('s68')
    t.append(b'k69')
    t.append('s69')
    t.append(b'k70')
    t.append('s70')
    t.append(b'k71')
    t.append('s71')
    t.append(b'k72')
    t.append('s72')
    t.append(b'k73')
    t.append('s73')
    t.append(b'k74')
    t.append('s74')
    t.append(b'k75')
    t.append('s75')
    t.append(b'k76')
    t.append('s76')
    t.append(b'k77')
    t.append('s77')
    t.append(b'k78')
    t.append('s78')
    t.append(b'k79')
    t.append('s79')
    t.append(b'k80')
    t.append('s80')
    t.append(b'k81')
    t.append('s81')
    t.append(b'k82')
    t.append('s82')
    t.append(b'k83')
    t.append('s83')
    t.append(b'k84')
    t.append('s84')
    t.append(b'k85')
    t.append('s85')
    t.append(b'k86')
    t.append('s86')
    t.append(b'k87')
    t.append('s87')
    t.append(b'k88')
    t.append('s88')
    t.append(b'k89')
    t.append('s89')
    t.append(b'k90')
    t.append('s90')
    t.append(b'k91')
    t.append('s91')
    t.append(b'k92')
    t.append('s92')
    t.append(b'k93')
    t.append('s93')
    t.append(b'k94')
    t.append('s94')
    t.append(b'k95')
    t.append('s95')
    t.append(b'k96')
    t.append('s96')
    t.append(b'k97')
    t.append('s97')
    t.append(b'k98')
    t.append('s98')
    t.append(b'k99')
    t.append('s99')
    t.append(b'k100')
    t.append('s100')
    t.append(b'k101')
    t.append('s101')
    t.append(b'k102')
    t.append('s102')
    t.append(b'k103')
    t.append('s103')
    t.append(b'k104')
    t.append('s104')
    t.append(b'k105')
    t.append('s105')
    t.append(b'k106')
    t.append('s106')
    t.append(b'k107')
    t.append('s107')
    t.append(b'k108')
    t.append('s108')
    t.append(b'k109')
    t.append('s109')
    t.append(b'k110')
    t.append('s110')
    t.append(b'k111')
    t.append('s111')
    t.append(b'k112')
    t.append('s112')
    t.append(b'k113')
    t.append('s113')
    t.append(b'k114')
    t.append('s114')
    t.append(b'k115')
    t.append('s115')
    t.append(b'k116')
    t.append('s116')
    t.append(b'k117')
    t.append('s117')
    t.append(b'k118')
    t.append('s118')
    t.append(b'k119')
    t.append('s119')
    t.append(b'k120')
    t.append('s120')
    t.append(b'k121')
    t.append('s121')
    t.append(b'k122')
    t.append('s122')
    t.append(b'k123')
    t.append('s123')
    t.append(b'k124')
    t.append('s124')
    t.append(b'k125')
    t.append('s125')
    t.append(b'k126')
    t.append('s126')
    t.append(b'k127')
    t.append('s127')
    t.append(b'k128')
    t.append('s128')
    t.append(b'k129')
    t.append('s129')
    t.append(b'k130')
    t.append('s130')
    t.append(b'k131')
    t.append('s131')
    t.append(b'k132')
    t.append('s132')
    t.append(b'k133')
    t.append('s133')
    t.append(b'k134')
    t.append('s134')
    t.append(b'k135')
    t.append('s135')
    t.append(b'k136')
    t.append('s136')
    t.append(b'k137')
    t.append('s137')
    t.append(b'k138')
    t.append('s138')
    t.append(b'k139')
    t.append('s139')
    t.append(b'k140')
    t.append('s140')
    t.append(b'k141')
    t.append('s141')
    t.append(b'k142')
    t.append('s142')
    t.append(b'k143')
    t.append('s143')
    t.append(b'k144')
    t.append('s144')
    t.append(b'k145')
    t.append('s145')
    t.append(b'k146')
    t.append('s146')
    t.append(b'k147')
    t.append('s147')
    t.append(b'k148')
    t.append('s148')
    t.append(b'k149')
    t.append('s149')
    return t
BT = ('v0', b'v1', 'v2', b'v3', 'v4', b'v5', 'v6', b'v7', 'v8', b'v9', 'v10', b'v11', 'v12', b'v13', 'v14', b'v15', 'v16', b'v17', 'v18', b'v19', 'v20', b'v21', 'v22', b'v23', 'v24', b'v25', 'v26', b'v27', 'v28', b'v29', 'v30', b'v31', 'v32', b'v33', 'v34', b'v35', 'v36', b'v37', 'v38', b'v39', 'v40', b'v41', 'v42', b'v43', 'v44', b'v45', 'v46', b'v47', 'v48', b'v49', 'v50', b'v51', 'v52', b'v53', 'v54', b'v55', 'v56', b'v57', 'v58', b'v59', 'v60', b'v61', 'v62', b'v63', 'v64', b'v65', 'v66', b'v67', 'v68', b'v69', 'v70', b'v71', 'v72', b'v73', 'v74', b'v75', 'v76', b'v77', 'v78', b'v79', 'v80', b'v81', 'v82', b'v83', 'v84', b'v85', 'v86', b'v87', 'v88', b'v89', 'v90', b'v91', 'v92', b'v93', 'v94', b'v95', 'v96', b'v97', 'v98', b'v99', 'v100', b'v101', 'v102', b'v103', 'v104', b'v105', 'v106', b'v107', 'v108', b'v109', 'v110', b'v111', 'v112', b'v113', 'v114', b'v115', 'v116', b'v117', 'v118', b'v119', 'v120', b'v121', 'v122', b'v123', 'v124', b'v125', 'v126', b'v127', 'v128', b'v129', 'v130', b'v131', 'v132', b'v133', 'v134', b'v135', 'v136', b'v137', 'v138', b'v139', 'v140', b'v141', 'v142', b'v143', 'v144', b'v145', 'v146', b'v147', 'v148', b'v149', 'v150', b'v151', 'v152', b'v153', 'v154', b'v155', 'v156', b'v157', 'v158', b'v159', 'v160', b'v161', 'v162', b'v163', 'v164', b'v165', 'v166', b'v167', 'v168', b'v169', 'v170', b'v171', 'v172', b'v173', 'v174', b'v175', 'v176', b'v177', 'v178', b'v179', 'v180', b'v181', 'v182', b'v183', 'v184', b'v185', 'v186', b'v187', 'v188', b'v189', 'v190', b'v191', 'v192', b'v193', 'v194', b'v195', 'v196', b'v197', 'v198', b'v199', 'v200', b'v201', 'v202', b'v203', 'v204', b'v205', 'v206', b'v207', 'v208', b'v209', 'v210', b'v211', 'v212', b'v213', 'v214', b'v215', 'v216', b'v217', 'v218', b'v219', 'v220', b'v221', 'v222', b'v223', 'v224', b'v225', 'v226', b'v227', 'v228', b'v229', 'v230', b'v231', 'v232', b'v233', 'v234', b'v235', 'v236', b'v237', 'v238', b'v239', 'v240', b'v241', 'v242', b'v243', 'v244', b'v245', 'v246', b'v247', 'v248', b'v249', 'v250', b'v251', 'v252', b'v253', 'v254', b'v255', 'v256', b'v257', 'v258', b'v259', 'v260', b'v261', 'v262', b'v263', 'v264', b'v265', 'v266', b'v267', 'v268', b'v269', 'v270', b'v271', 'v272', b'v273', 'v274', b'v275', 'v276', b'v277', 'v278', b'v279', 'v280', b'v281', 'v282', b'v283', 'v284', b'v285', 'v286', b'v287', 'v288', b'v289', 'v290', b'v291', 'v292', b'v293', 'v294', b'v295', 'v296', b'v297', 'v298', b'v299')
MIX = (b'caf\xc3\xa9', b'\xff\xfe', b'', 'caf\xe9', 1.5, None, (b'in', 'in'))
