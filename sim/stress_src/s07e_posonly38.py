def p(a, b, /, c, *, d):
    if (n := a + b) > 3:
        return n
    return c + d
