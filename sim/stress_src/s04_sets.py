def contains(x):
    if x in {1, 2, 3}:
        return 1
    if x in {'alpha', 'beta', 'gamma', 'delta', 'epsilon'}:
        return 2
    if x in [4, 5, 6]:
        return 3
    if x in {None, True, 2.5, 'mixed', (1, 2)}:
        return 4
    return 0


def contains_again(y):
    # the same literals once more: the compiler shares the constant, marshal stores it once with FLAG_REF
    # and refers back to it from the second code object
    if y in {'alpha', 'beta', 'gamma', 'delta', 'epsilon'}:
        return 2
    if y in {1, 2, 3}:
        return 1
    if y in {None, True, 2.5, 'mixed', (1, 2)}:
        return 4
    return ('alpha', 'beta'), ('alpha', 'beta')


def third(z):
    return z in {'alpha', 'beta', 'gamma', 'delta', 'epsilon'} or z in {('alpha', 'beta'), 'mixed'}
