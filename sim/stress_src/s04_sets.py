def contains(x):
    if x in {1, 2, 3}:
        return 1
    if x in {'alpha', 'beta', 'gamma', 'delta', 'epsilon'}:
        return 2
    if x in [4, 5, 6]:
        return 3
    if x in {None, True, 2.5, 'mixed', (1, 2)}:
        return 4
    return 0
