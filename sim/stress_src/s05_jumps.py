def longloop(n):
    t = 0
    for i in range(n):
        t += i * 0
        t += i * 1
        t += i * 2
        t += i * 3
        t += i * 4
        t += i * 5
        t += i * 6
        t += i * 7
        t += i * 8
        t += i * 9
        t += i * 10
        t += i * 11
        t += i * 12
        t += i * 13
        t += i * 14
        t += i * 15
        t += i * 16
        t += i * 17
        t += i * 18
        t += i * 19
        t += i * 20
        t += i * 21
        t += i * 22
        t += i * 23
        t += i * 24
        t += i * 25
        t += i * 26
        t += i * 27
        t += i * 28
        t += i * 29
        t += i * 30
        t += i * 31
        t += i * 32
        t += i * 33
        t += i * 34
        t += i * 35
        t += i * 36
        t += i * 37
        t += i * 38
        t += i * 39
        t += i * 40
        t += i * 41
        t += i * 42
        t += i * 43
        t += i * 44
        t += i * 45
        t += i * 46
        t += i * 47
        t += i * 48
        t += i * 49
        t += i * 50
        t += i * 51
        t += i * 52
        t += i * 53
        t += i * 54
        t += i * 55
        t += i * 56
        t += i * 57
        t += i * 58
        t += i * 59
        t += i * 60
        t += i * 61
        t += i * 62
        t += i * 63
        t += i * 64
        t += i * 65
        t += i * 66
        t += i * 67
        t += i * 68
        t += i * 69
        t += i * 70
        t += i * 71
        t += i * 72
        t += i * 73
        t += i * 74
        t += i * 75
        t += i * 76
        t += i * 77
        t += i * 78
        t += i * 79
        t += i * 80
        t += i * 81
        t += i * 82
        t += i * 83
        t += i * 84
        t += i * 85
        t += i * 86
        t += i * 87
        t += i * 88
        t += i * 89
        if t > 10**9:
            break
    else:
        t = -1
    while n:
        n -= 1
        if n == 5:
            continue
        t -= 0
        t -= 1
        t -= 2
        t -= 3
        t -= 4
        t -= 5
        t -= 6
        t -= 7
        t -= 8
        t -= 9
        t -= 10
        t -= 11
        t -= 12
        t -= 13
        t -= 14
        t -= 15
        t -= 16
        t -= 17
        t -= 18
        t -= 19
        t -= 20
        t -= 21
        t -= 22
        t -= 23
        t -= 24
        t -= 25
        t -= 26
        t -= 27
        t -= 28
        t -= 29
        t -= 30
        t -= 31
        t -= 32
        t -= 33
        t -= 34
        t -= 35
        t -= 36
        t -= 37
        t -= 38
        t -= 39
        t -= 40
        t -= 41
        t -= 42
        t -= 43
        t -= 44
        t -= 45
        t -= 46
        t -= 47
        t -= 48
        t -= 49
        t -= 50
        t -= 51
        t -= 52
        t -= 53
        t -= 54
        t -= 55
        t -= 56
        t -= 57
        t -= 58
        t -= 59
        t -= 60
        t -= 61
        t -= 62
        t -= 63
        t -= 64
        t -= 65
        t -= 66
        t -= 67
        t -= 68
        t -= 69
    return t

def tries(x):
    try:
        try:
            return 1 / x
        except ZeroDivisionError:
            return 0
        finally:
            x = None
    except (TypeError, ValueError):
        raise
    finally:
        pass
