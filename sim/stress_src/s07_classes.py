class A(object):
    z = 3
    def m(self, a, b=2, *args, **kw):
        def clos():
            return a + b + self.z
        return clos

def glob():
    global G
    G = 1
    return G
