def eg(f):
    try:
        f()
    except* ValueError as e:
        return e
    except* (TypeError, KeyError):
        return None
