def f(a, b):
    return f'{a!r:>10} {b:{a}} {a + b}' + f'{a}'
