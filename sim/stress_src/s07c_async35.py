async def co(x):
    async with x as y:
        async for z in y:
            await z
    return [i async for i in x] if False else None
