# -*- coding: utf-8 -*-
naïve = 'café 中文 😀'
sur = '\udc80\ud800'
b = b'\x00\xff\x80'
def π(α):
    return α + '€'
