def m(x):
    match x:
        case {'k': v}:
            return v
        case [a, b, *rest]:
            return a
        case int() | str():
            return x
        case _:
            return None
