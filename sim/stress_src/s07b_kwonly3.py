def kw(a, *, b=1, c):
    return a + b + c

def ann(a: int, b: 'str' = 'x') -> None:
    nonlocal_holder = []
    def inner():
        nonlocal a
        a += 1
        return a
    return inner
