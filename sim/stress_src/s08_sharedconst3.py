# constant folding of (t,)*2 builds tuples whose two items are the SAME object: 2**14 tree nodes, ~16 objects;
# and sets without a string member but with None / Ellipsis (address-based hashes before 3.12)
def deepshare(x):
    return x in {(((((((((((((((0,)*2,)*2,)*2,)*2,)*2,)*2,)*2,)*2,)*2,)*2,)*2,)*2,)*2,)*2,), 'leaf'}

DEEPSHARE = (((((((((((((((0,)*2,)*2,)*2,)*2,)*2,)*2,)*2,)*2,)*2,)*2,)*2,)*2,)*2,)*2,)
NOSTR = {None, 1, 2, 3}
def nostr(x):
    return x in {None, 10, 20, 30} or x in {None, Ellipsis, 7.5, 2j} or x in {..., 1, 2}
