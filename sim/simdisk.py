# Simulated storage medium for .pyc files: what a reader finds after the producer crashed
# mid-write or the medium misbehaved.
#
# Every fault is applied to an in-memory image by a function that draws all of its
# choices from the run's SeedStream and returns an explicit descriptor (so that the
# replay file does not depend on this generator staying unchanged).
#
# Python 3.8 syntax.

import struct

from sim import core

# values worth writing into a 4-byte field of a marshal stream / pyc header
INT_SPECIALS = [0, 1, 2, 255, 256, 65535, 65536, 1 << 24, (1 << 31) - 1, -1, -2, -(1 << 31), 0x7FFFFFF0,
                0x40000000, 0x3FFFFFFF, 1000, 100000,
                # small negative lengths: a reader that computes pos + n moves BACKWARDS (-5 = back onto the type
                # code of a 4-byte-length object, -2 onto that of a 1-byte-length one)
                -3, -4, -5, -6, -7, -8, -9, -10, -13]

TYPE_CODES = b"0NS.FTilIfgxysAazZtu)([<>{Rcr?"
CONTAINER_CODES = b"([)<>{"

FAULT_KINDS = ["crash_prefix", "torn_write", "bit_rot", "extent", "adversarial_field", "header", "nesting_bomb",
               "object_graft"]


class FaultCtx:
    def __init__(self, base, others, readmap, magics, others_readmaps=None, objmap=None):
        self.base = base  # bytes of the intended file
        self.others = others  # list of bytes: other files that once lived on the medium
        self.others_rm1 = [[o for o, n in rm if n == 1] for rm in (others_readmaps or [])]
        self.objmap = objmap or {}  # {object offset: reference slots taken before it} (exact, when available)
        self.readmap = readmap  # [(offset, size)] of the fault-free load of base
        self.magics = magics  # sorted list of known magic ints
        self.rm1 = [o for o, n in readmap if n == 1]
        self.rm4 = [o for o, n in readmap if n == 4]
        self.rm2 = [o for o, n in readmap if n == 2]


def _pos(rng, img, ctx, aimed_pool=None):
    """a byte position: half of the time aimed with the read map, else uniform"""
    n = len(img)
    if n == 0:
        return 0
    if aimed_pool and rng.chance(1, 2):
        p = rng.choice(aimed_pool)
        if p < n:
            return p
    return rng.below(n)


# 1 ------------------------------------------------------------------ crash during write
def f_crash_prefix(rng, img, ctx):
    n = len(img)
    mode = rng.below(5)
    if mode == 0:
        cut = rng.choice([0, 1, 3, 4, 7, 8, 11, 12, 15, 16, 17, 20, 49, 50, 51, 52])
    elif mode == 1 and ctx.readmap:
        off, sz = rng.choice(ctx.readmap)
        cut = off + rng.choice([0, 1, sz - 1 if sz > 1 else 0, sz])
    elif mode == 2:
        cut = n - 1 - rng.below(min(n, 16)) if n else 0
    else:
        cut = rng.below(n + 1)
    cut = max(0, min(n, cut))
    if cut == n:
        return None
    return img[:cut], {"kind": "crash_prefix", "cut": cut}


# 2 ---------------------------------------------------------------------------- torn write
def f_torn_write(rng, img, ctx):
    n = len(img)
    if n == 0:
        return None
    bs = rng.choice([16, 64, 512, 512, 4096, 4096])
    nblocks = (n + bs - 1) // bs
    fill = rng.choice(["zero", "ff", "stale"])
    stale = rng.choice(ctx.others) if (fill == "stale" and ctx.others) else b""
    if fill == "stale" and not stale:
        fill = "zero"
    # each block is lost with probability 1/4; at least one lost
    lost = [b for b in range(nblocks) if rng.chance(1, 4)]
    if not lost:
        lost = [rng.below(nblocks)]
    drop_tail = rng.chance(1, 4)  # blocks past the last persisted one never allocated
    out = bytearray(img)
    for b in lost:
        lo, hi = b * bs, min(n, (b + 1) * bs)
        if fill == "zero":
            out[lo:hi] = b"\x00" * (hi - lo)
        elif fill == "ff":
            out[lo:hi] = b"\xff" * (hi - lo)
        else:
            chunk = stale[lo:hi]
            chunk = chunk + b"\x00" * ((hi - lo) - len(chunk))
            out[lo:hi] = chunk
    if drop_tail:
        keep = [b for b in range(nblocks) if b not in lost]
        last = (max(keep) + 1) * bs if keep else 0
        out = out[: min(n, last)]
    out = bytes(out)
    if out == img:
        return None
    return out, {"kind": "torn_write", "block": bs, "lost": lost[:32], "fill": fill, "drop_tail": drop_tail}


# 3 ------------------------------------------------------------------------------- bit rot
def f_bit_rot(rng, img, ctx):
    n = len(img)
    if n == 0:
        return None
    k = rng.weighted([(1, 6), (2, 3), (3, 2), (4, 1), (8, 1)])
    out = bytearray(img)
    edits = []
    pool = ctx.rm1 + ctx.rm4 + ctx.rm2
    for _ in range(k):
        p = _pos(rng, out, ctx, pool)
        how = rng.below(4)
        old = out[p]
        if how == 0:
            new = old ^ (1 << rng.below(8))
        elif how == 1:
            new = rng.below(256)
        elif how == 2:
            new = old ^ 0x80  # FLAG_REF toggle when p is a type code
        else:
            new = (old + rng.choice([1, 255])) & 0xFF
        out[p] = new
        edits.append([p, old, new])
    out = bytes(out)
    if out == img:
        return None
    return out, {"kind": "bit_rot", "edits": edits}


# 4 --------------------------------------------- lost / duplicated / misdirected extents
def f_extent(rng, img, ctx):
    n = len(img)
    if n < 2:
        return None
    op = rng.choice(["delete", "duplicate", "insert_garbage", "swap", "splice_tail", "splice_head", "foreign_payload"])
    a = rng.below(n)
    ln = 1 + rng.below(min(n - a, rng.choice([1, 4, 16, 64, 512, 4096])))
    if op == "delete":
        out = img[:a] + img[a + ln:]
        d = {"op": op, "at": a, "len": ln}
    elif op == "duplicate":
        out = img[: a + ln] + img[a : a + ln] + img[a + ln:]
        d = {"op": op, "at": a, "len": ln}
    elif op == "insert_garbage":
        g = rng.bytes(ln)
        out = img[:a] + g + img[a:]
        d = {"op": op, "at": a, "len": ln}
    elif op == "swap":
        b = rng.below(n)
        lo, hi = min(a, b), max(a, b)
        l2 = 1 + rng.below(max(1, min(ln, hi - lo, n - hi)))
        if hi - lo < l2 or hi + l2 > n:
            return None
        out = img[:lo] + img[hi : hi + l2] + img[lo + l2 : hi] + img[lo : lo + l2] + img[hi + l2:]
        d = {"op": op, "a": lo, "b": hi, "len": l2}
    else:
        if not ctx.others:
            return None
        oi = rng.below(len(ctx.others))
        other = ctx.others[oi]
        if op == "splice_tail":
            out = img[:a] + other[min(a, len(other)):]
            d = {"op": op, "at": a, "other": oi}
        elif op == "splice_head":
            out = other[:a] + img[a:]
            d = {"op": op, "at": a, "other": oi}
        else:
            # this file's header, another file's (possibly other version's) payload
            hl = rng.choice([8, 12, 16])
            ohl = rng.choice([8, 12, 16])
            out = img[:hl] + other[ohl:]
            d = {"op": op, "hdr": hl, "other_hdr": ohl, "other": oi}
    if out == img:
        return None
    d["kind"] = "extent"
    return out, d


# 5 ------------------------------------------------------------ adversarial field values
def f_adversarial_field(rng, img, ctx):
    n = len(img)
    if n < 8:
        return None
    which = rng.weighted([("int4", 5), ("type", 4), ("ref", 2), ("len1", 1), ("int2", 1)])
    out = bytearray(img)
    if which == "int4":
        pool = [o for o in ctx.rm4 if o + 4 <= n]
        off = rng.choice(pool) if pool and rng.chance(7, 8) else rng.below(n - 3)
        v = rng.choice(INT_SPECIALS + [n, n + 1, n - off, n - off - 4, n - off - 3])
        if rng.chance(1, 8):
            v = rng.bits(32) - (1 << 31)
        out[off : off + 4] = struct.pack("<i", max(-(1 << 31), min((1 << 31) - 1, v)))
        d = {"what": "int4", "at": off, "value": v}
    elif which == "int2":
        pool = [o for o in ctx.rm2 if o + 2 <= n]
        off = rng.choice(pool) if pool else rng.below(n - 1)
        v = rng.choice([0, 1, -1, 32767, -32768, 255, 256])
        out[off : off + 2] = struct.pack("<h", v)
        d = {"what": "int2", "at": off, "value": v}
    elif which == "type":
        pool = [o for o in ctx.rm1 if o < n]
        off = rng.choice(pool) if pool and rng.chance(7, 8) else rng.below(n)
        old = out[off]
        how = rng.below(4)
        if how == 0:
            new = rng.choice(TYPE_CODES)
        elif how == 1:
            new = rng.choice(TYPE_CODES) | 0x80
        elif how == 2:
            new = old ^ 0x80
        else:
            new = rng.choice([0x00, 0x01, 0x7F, 0xFF, 0x80, ord("?"), ord("!"), ord("e")])
        out[off] = new
        d = {"what": "type", "at": off, "old": old, "new": new}
    elif which == "ref":
        # turn an object into a reference with a hostile index
        pool = [o for o in ctx.rm1 if o + 5 <= n]
        off = rng.choice(pool) if pool else rng.below(n - 4)
        idx = rng.choice([0, 1, 2, -1, 65535, (1 << 31) - 1, rng.below(64)])
        code = rng.choice([ord("r"), ord("R")])
        out[off] = code
        out[off + 1 : off + 5] = struct.pack("<i", idx)
        d = {"what": "ref", "at": off, "code": code, "index": idx}
    else:
        pool = [o for o in ctx.rm1 if o + 2 <= n]
        off = (rng.choice(pool) + 1) if pool else rng.below(n)
        off = min(off, n - 1)
        v = rng.choice([0, 1, 255, 128, 127])
        out[off] = v
        d = {"what": "len1", "at": off, "value": v}
    out = bytes(out)
    if out == img:
        return None
    d["kind"] = "adversarial_field"
    return out, d


# 6 ---------------------------------------------------------------------------- header
def f_header(rng, img, ctx):
    n = len(img)
    if n < 4:
        return None
    out = bytearray(img)
    what = rng.weighted([("magic_known", 4), ("magic_near", 2), ("crlf", 1), ("pep552", 3), ("ts_size", 2),
                         ("magic_random", 1), ("magic_1x", 1), ("magic_zero", 1)])
    d = {"what": what}
    if what == "magic_known" and ctx.magics:
        m = rng.choice(ctx.magics)
        out[0:2] = struct.pack("<H", m & 0xFFFF)
        if rng.chance(1, 4):
            out[2:4] = rng.choice([b"\r\n", b"\x99\x00", b"\n\n", b"\r\r", b"\x00\x00"])
        d["magic"] = m
    elif what == "magic_near":
        cur = struct.unpack("<H", bytes(out[0:2]))[0]
        m = (cur + rng.choice([-2, -1, 1, 2, 10, -10])) & 0xFFFF
        out[0:2] = struct.pack("<H", m)
        d["magic"] = m
    elif what == "crlf":
        out[2:4] = rng.choice([b"\n\n", b"\r\r", b"\n\r", b"\x99\x00", b"\x00\x00", b"\r\x0b", rng.bytes(2)])
        d["bytes"] = list(out[2:4])
    elif what == "pep552" and n >= 8:
        v = rng.choice([0, 1, 2, 3, 4, 5, 6, 7, 0xFF, 0x80000000, 0xFFFFFFFF, rng.bits(32)])
        out[4:8] = struct.pack("<I", v)
        d["word"] = v
    elif what == "ts_size" and n >= 16:
        off = rng.choice([4, 8, 12])
        v = rng.choice([0, 1, 0x7FFFFFFF, 0x80000000, 0xFFFFFFFF, rng.bits(32)])
        out[off : off + 4] = struct.pack("<I", v)
        d["at"] = off
        d["value"] = v
    elif what == "magic_random":
        out[0:4] = rng.bytes(4)
        d["bytes"] = list(out[0:4])
    elif what == "magic_zero":
        # PyPy 3.2 stores a magic starting with the character '0'; load.py special-cases that first byte
        out[0:1] = b"0"
        if rng.chance(1, 2):
            out[1:4] = rng.choice([b"\x0c\r\n", b"\x00\r\n", b"000", rng.bytes(3)])
        d["bytes"] = list(out[0:4])
    elif what == "magic_1x":
        m = rng.choice([39170, 39171, 11913, 5892, 20121])
        out[0:2] = struct.pack("<H", m)
        out[2:4] = rng.choice([b"\x99\x00", b"\r\n"])
        d["magic"] = m
    out = bytes(out)
    if out == img:
        return None
    d["kind"] = "header"
    return out, d


# 7 ---------------------------------------------------------------------- nesting bombs
def _i32(v):
    return struct.pack("<i", v)


_SLOT_CODES = frozenset(b"ilIfgxysAazZtu)([<>{cC")


def _refs_before(img, ctx, at):
    """number of reference-table slots the fault-free parse has taken before offset `at` (estimate)"""
    if at in ctx.objmap and img[:at] == ctx.base[:at]:
        return ctx.objmap[at]
    # only these type codes take a slot when flagged (None/True/False/Ellipsis/StopIteration/NULL/refs do not)
    return sum(1 for o in ctx.rm1 if o < at and o < len(img) and (img[o] & 0x80) and (img[o] & 0x7F) in _SLOT_CODES)


def _marshal_long(v, flag_ref=False):
    digits = []
    a = abs(v)
    while a:
        digits.append(a & 0x7FFF)
        a >>= 15
    n = len(digits) if v >= 0 else -len(digits)
    return bytes([ord("l") | (0x80 if flag_ref else 0)]) + _i32(n) + b"".join(struct.pack("<H", d) for d in digits)


def _eq_collide(rng, base_index):
    """A set whose members all have ONE hash value and are pairwise equal up to their last item: (D_i, x_i) with every
    D_i its own doubling DAG of 2-tuples (equal, but no object shared, so no identity shortcut) and x_i different
    ints congruent modulo 2**61-1.  Hashing stays cheap; building the set compares every member with every earlier
    one and each comparison walks 2**levels leaves."""
    # sizes whose comparison work is far above the 12 s CPU budget wherever it is done at all (CPython's marshal does
    # it for a file of the host's version): (18, 80) cost ~12.6 s there and its verdict flipped with machine load
    levels, members = rng.choice([(16, 300), (16, 340), (18, 200)])
    idx = base_index
    out = []
    for i in range(members):
        inner = bytes([0xA9, 2]) + b"NN"  # small tuple | FLAG_REF; reference indices are handed out outside-in
        for k in range(1, levels):
            inner = bytes([0xA9, 2]) + inner + b"r" + _i32(idx + levels - k)
        idx += levels
        out.append(b")\x02" + inner + _marshal_long(7 + i * (2 ** 61 - 1)))
    kind = rng.choice(["<", ">"])
    return kind.encode() + _i32(members) + b"".join(out), {"levels": levels, "members": members,
                                                           "trigger": "set" if kind == "<" else "frozenset"}


def _ref_bomb(rng, base_index, shape, plain=False):
    """Adversarial *reference* fields: objects that are small in the file but huge (DAG) or deep (chain) once the
    3.4+ reference table is followed.  Returns bytes of one tuple object holding the levels and a trigger."""
    if shape == "eq_collide":
        return _eq_collide(rng, base_index)
    leaf = None
    if shape == "ref_dag_leaf":
        # a DAG small enough for any node budget (2**n nodes) whose ONE leaf is expensive to hash: a long of
        # ~100000 bits (CPython rehashes all digits each time), a Python-2 unicode (hashed by Python code)
        # (levels, bits of the long) are chosen so that CPython's own marshal - which a file of the host's version
        # reaches - needs either <= 2 s or >= 30 s of CPU for them: nothing near the 12 s budget, whose verdict would
        # then depend on machine load (the determinism self-test caught exactly that on a loaded machine)
        n = rng.choice([16, 22, 22, 24])
        width = 2
        leaf = rng.choice(["long", "long", "long", "unicode", "bytes"])
    elif shape == "ref_dag":
        n = rng.choice([34, 44, 60])
        width = 2
    else:
        n = rng.choice([3000, 9000])  # 7 bytes a level: the deepest chain that fits the 64 KiB input bound
        width = 1
    parts = []
    extra_items = 0
    if leaf is not None:
        if leaf == "long":
            bits = rng.choice([20000, 99000, 99000])
            parts.append(_marshal_long((1 << (bits if n == 16 else 99000)) - 3, flag_ref=True))
        elif leaf == "unicode":
            txt = rng.choice([b"abc", b"x" * 40000])
            parts.append(bytes([ord("u") | 0x80]) + _i32(len(txt)) + txt)
        else:
            parts.append(bytes([ord("s") | 0x80]) + _i32(30000) + b"y" * 30000)
        extra_items = 1
        for k in range(n):
            parts.append(bytes([ord(")") | 0x80, width]))
            parts.append((b"r" + _i32(base_index + k)) * width)  # level k has index base_index + 1 + k
        last = b"r" + _i32(base_index + n)
        trigger = rng.choice(["set", "frozenset", "dict"])
        tail = {"set": b"<" + _i32(1) + last, "frozenset": b">" + _i32(1) + last, "dict": b"{" + last + b"T" + b"0"}[trigger]
        return b"(" + _i32(n + 2) + b"".join(parts) + tail, {"levels": n, "trigger": trigger, "leaf": leaf}
    if shape == "ref_dag" and rng.chance(1, 2):
        # first a set of many EQUAL small tuples: all but one die at once, and their addresses are handed to the
        # tuples created next - a size memo keyed on id() without keeping its objects alive inherits stale entries
        dups = rng.choice([50, 300, 1000])
        parts.append(b"<" + _i32(dups) + (b")" + bytes([width]) + b"N" * width) * dups)
        extra_items = 1
    for k in range(n):
        parts.append(bytes([ord(")") | 0x80, width]))
        if k == 0:
            parts.append(b"N" * width)
        else:
            parts.append((b"r" + _i32(base_index + k - 1)) * width)
    last = b"r" + _i32(base_index + n - 1)
    trigger = "plain" if plain else rng.choice(["set", "frozenset", "dict", "tuple_eq"])
    if trigger == "set":
        tail = b"<" + _i32(1) + last
    elif trigger == "frozenset":
        tail = b">" + _i32(1) + last
    elif trigger == "dict":
        tail = b"{" + last + b"T" + b"0"
    elif trigger == "tuple_eq":
        tail = b"<" + _i32(2) + last + b"r" + _i32(base_index + max(0, n - 2))
    else:
        tail = last
    return b"(" + _i32(n + 1 + extra_items) + b"".join(parts) + tail, {"levels": n, "trigger": trigger,
                                                                       "dups_first": bool(extra_items)}


def f_nesting_bomb(rng, img, ctx):
    n = len(img)
    if n < 16:
        return None
    pool = [o for o in ctx.rm1 if 8 <= o < n]
    at = rng.choice(pool) if pool else rng.between(8, n - 1)
    depth = rng.choice([8, 64, 600, 1100, 3000, 12000])
    # reference bombs are rare on purpose: each DAG instance burns its whole CPU budget (twice: batch + isolation)
    shape = rng.weighted([("small_tuple", 180), ("tuple", 180), ("list", 180), ("dict", 180), ("set", 180),
                          ("ref_tuple", 180), ("long_digits", 180), ("code", 180), ("big_int", 120), ("ref_dag", 1),
                          ("ref_dag_leaf", 10), ("eq_collide", 6), ("ref_chain", 5), ("ref_dag_plain", 120), ("ref_chain_plain", 60), ("text_number", 150)])
    # *_plain: the DAG / chain is just a value (a constant, a name, a code-object field) - nothing in the loader
    # hashes, prints or compares it, so the unchanged tree handles it instantly; it costs nothing to try often
    plain = shape.endswith("_plain")
    if plain:
        shape = shape[:-6]
    extra = {}
    if shape in ("ref_dag", "ref_chain", "ref_dag_leaf", "eq_collide"):
        # exact indices when the bomb replaces the whole payload (first object after the header), estimated
        # indices when it replaces an inner object
        whole = (rng.chance(1, 2) and not plain) or shape == "eq_collide"
        if whole:
            hl = rng.choice([8, 12, 16])
            if shape in ("ref_dag_leaf", "eq_collide") and ctx.objmap and img[:min(ctx.objmap)] == ctx.base[:min(ctx.objmap)]:
                hl = min(ctx.objmap)  # the header length of this file's version
            bomb, extra = _ref_bomb(rng, 0, shape, plain)
            out = img[:hl] + bomb
            if shape in ("ref_dag_leaf", "eq_collide") and hl == 16 and len(img) >= 2 and \
                    struct.unpack("<H", img[:2])[0] in (3413, 3425, 3439, 3495, 3531, 3571) and rng.chance(3, 4):
                # a file of an installed interpreter's own version goes to CPython's marshal on that host, where these
                # two shapes burn the whole CPU budget (the known finding D13c) and teach nothing about xdis: three
                # times in four the file claims to be 3.7 instead (same header layout), so every host uses xdis's own
                # unmarshaller
                out = struct.pack("<H", 3394) + out[2:]
                extra["magic_rewritten"] = 3394
            extra.update({"whole_payload": True, "header_len": hl})
            d = {"kind": "nesting_bomb", "at": hl, "depth": extra["levels"], "shape": shape, "keep_tail": False}
            d.update(extra)
            if len(out) > 64 * 1024:
                d["oversize"] = True
            return out, d
        starts = sorted(o for o in ctx.objmap if 8 <= o < n)
        if starts and img[:starts[-1]] == ctx.base[:starts[-1]]:
            at = rng.choice(starts)
        bomb, extra = _ref_bomb(rng, _refs_before(img, ctx, at), shape, plain)
        how = rng.choice(["insert", "cut", "replace_object", "replace_object"])
        if how == "insert":
            out = img[:at] + bomb + img[at:]
        elif how == "cut":
            out = img[:at] + bomb
        else:
            # the bomb takes the place of exactly one object: the rest of the file still parses
            later = [o for o in starts if o > at]
            out = img[:at] + bomb + (img[rng.choice(later[:6]):] if later else b"")
        extra["how"] = how
        d = {"kind": "nesting_bomb", "at": at, "depth": extra["levels"], "shape": shape, "keep_tail": True}
        d.update(extra)
        if len(out) > 64 * 1024:
            d["oversize"] = True
        return out, d
    if shape == "small_tuple":
        bomb = b")\x01" * depth
    elif shape == "tuple":
        bomb = b"(\x01\x00\x00\x00" * depth
    elif shape == "list":
        bomb = b"[\x01\x00\x00\x00" * depth
    elif shape == "dict":
        bomb = b"{" * depth
    elif shape == "set":
        bomb = b"<\x01\x00\x00\x00" * depth
    elif shape == "ref_tuple":
        bomb = b"\xa9\x01" * depth
    elif shape == "long_digits":
        bomb = b"l" + struct.pack("<i", rng.choice([(1 << 31) - 1, -(1 << 31), 1 << 20, 40000])) + b"\xff\x7f" * min(depth, 4000)
    elif shape == "text_number":
        # the text forms of floats / complex numbers of old marshal versions ('f' and 'x' with a 1-byte length,
        # 'x' with a 4-byte length from 2.5 on): long digit runs ending in junk, exponents, dots, signs, inf/nan
        k = rng.choice([20, 44, 60, 120, 250])
        body = rng.choice([b"1" * k + b"x", b"1" * (k // 2) + b"." + b"1" * (k // 2 - 1) + b"z", b"9" * k,
                           b"1e" + b"9" * (k - 2), b"." * k, b"-" * k, b"1" * (k - 4) + b"e+1x", b"nan", b"inf",
                           b"1_" * (k // 2), b" " * (k - 1) + b"1", b"0x" + b"f" * (k - 2)])[:255]
        form = rng.choice(["f", "x1", "x4"])
        if form == "f":
            bomb = b"f" + bytes([len(body)]) + body
        elif form == "x1":
            bomb = b"x" + bytes([len(body)]) + body + bytes([len(body)]) + body
        else:
            bomb = b"x" + struct.pack("<i", len(body)) + body + struct.pack("<i", len(body)) + body
    elif shape == "big_int":
        # a well-formed arbitrary-precision int of 15 000 .. 60 000 bits (> 4300 decimal digits: str() of it
        # raises ValueError on 3.11+ hosts), possibly negative, possibly flagged as a reference
        cnt = rng.choice([1000, 2000, 4000])
        code = ord("l") | (0x80 if rng.chance(1, 3) else 0)
        bomb = bytes([code]) + struct.pack("<i", cnt if rng.chance(3, 4) else -cnt) + b"\xff\x7f" * cnt
    else:
        bomb = (b"c" + b"\x00" * 16 + b"s\x00\x00\x00\x00" + b")\x01") * min(depth, 2000)
    bomb = bomb[: core_max_insert(n)]
    mode = rng.below(2)
    if mode == 0:
        out = img[:at] + bomb + img[at:]
    else:
        out = img[:at] + bomb
    return out, {"kind": "nesting_bomb", "at": at, "depth": depth, "shape": shape, "keep_tail": mode == 0}


# 8 ---------------------------------------------------- misdirected write at object granularity
def f_object_graft(rng, img, ctx):
    """A marshalled sub-object of another file (possibly of another Python version) lands where an object of this
    file starts: the parser keeps meeting well-formed objects, but of the wrong kind, version or reference context."""
    n = len(img)
    if n < 24 or not ctx.others or not ctx.others_rm1:
        return None
    oi = rng.below(min(len(ctx.others), len(ctx.others_rm1)))
    other = ctx.others[oi]
    orm = [o for o in ctx.others_rm1[oi] if 8 <= o < len(other)]
    mine = [o for o in ctx.rm1 if 8 <= o < n]
    if not orm or not mine:
        return None
    a = rng.choice(mine)
    b = rng.choice(orm)
    mode = rng.choice(["tail", "mid", "mid"])
    if mode == "tail":
        out = img[:a] + other[b:]
        d = {"mode": mode, "at": a, "other": oi, "other_at": b}
    else:
        later_b = [o for o in orm if o > b]
        later_a = [o for o in mine if o > a]
        e = rng.choice(later_b[:8]) if later_b else len(other)
        a2 = rng.choice(later_a[:8]) if later_a else n
        out = img[:a] + other[b:e] + img[a2:]
        d = {"mode": mode, "at": a, "resume_at": a2, "other": oi, "other_at": b, "other_end": e}
    if out == img:
        return None
    d["kind"] = "object_graft"
    return out[: 64 * 1024], d


def core_max_insert(n):
    return max(0, 64 * 1024 - n)


_FUNCS = {
    "crash_prefix": f_crash_prefix,
    "torn_write": f_torn_write,
    "bit_rot": f_bit_rot,
    "extent": f_extent,
    "adversarial_field": f_adversarial_field,
    "header": f_header,
    "nesting_bomb": f_nesting_bomb,
    "object_graft": f_object_graft,
}


def apply_fault_sequence(rng, ctx, enabled, max_faults):
    """Returns (image, [descriptor...]).  descriptors list only faults that changed the image."""
    img = ctx.base
    nf = rng.weighted([(1, 6), (2, 3), (3, 1), (4, 1)])
    nf = min(nf, max_faults)
    fired = []
    for _ in range(nf):
        kind = rng.choice(enabled)
        res = _FUNCS[kind](rng, img, ctx)
        if res is None:
            continue
        img, d = res
        fired.append(d)
        if len(img) > 64 * 1024 and not any(f.get("oversize") for f in fired):
            img = img[: 64 * 1024]
    return img, fired


# ------------------------------------------------------- a producer for the dropbox format
# (the XXTEA variant of xdis/dropbox/decrypt25.py, re-implemented here so that the workload does not depend on
# the tree under test: the key is derived from two ints stored in the clear)
_DELTA = 0x9E3779B9


def _db_rng(a, b):
    b = ((b << 13) ^ b) & 0xFFFFFFFF
    c = b ^ (b >> 17)
    c = c ^ (c << 5)
    return (a * 69069 + c + 0x6611CB3B) & 0xFFFFFFFF


def _db_keys(a, b):
    ka = _db_rng(a, b)
    kb = _db_rng(ka, a)
    kc = _db_rng(kb, ka)
    kd = _db_rng(kc, kb)
    ke = _db_rng(kd, kc)
    return (kb, kc, kd, ke)


def _db_mx(z, y, s, key, p, e):
    return ((z >> 5 ^ y << 2) + (y >> 3 ^ z << 4)) ^ ((s ^ y) + (key[(p & 3) ^ e] ^ z))


def dropbox_encrypt_code(plain, a):
    """'c' record of the dropbox format for the Python 2.5 code-object fields in `plain` (no type byte)"""
    b = len(plain)
    pad = (b + 15) & ~0xF
    plain = plain + b"\0" * (pad - b)
    key = _db_keys(a & 0xFFFFFFFF, b)
    v = list(struct.unpack("<%dL" % (pad // 4), plain))
    n = len(v)
    s = 0
    for _ in range(6 + 52 // n):
        s = (s + _DELTA) & 0xFFFFFFFF
        e = (s >> 2) & 3
        for p in range(n):
            z, y = v[(p - 1) % n], v[(p + 1) % n]
            v[p] = (v[p] + _db_mx(z, y, s, key, p, e)) & 0xFFFFFFFF
    return b"c" + struct.pack("<i", a) + struct.pack("<i", b) + struct.pack("<%dL" % (pad // 4), *v)


def synth_dropbox_valid(rng):
    """a well-formed encrypted dropbox module: code strings of varied length and opcode mix (opcodes the
    loader's substitution table knows, does not know, with and without arguments)"""
    def S(b):
        return b"s" + struct.pack("<i", len(b)) + b

    nest = rng.choice([0, 0, 0, 0, 0, 0, 0, 0, 1, 1, 3, 3, 40, 320])
    ln = rng.choice([8, 60, 600, 6000, 30000, 60000]) if nest == 0 else rng.choice([8, 60, 120])
    # the deepest shape fills the file; mostly a 16 KiB file (the loader legitimately deciphers up to 16 x the
    # file size, ~1.5 s of pure-Python XXTEA for 64 KiB, ten times that under the line tracer), 64 KiB one time in four
    cap = (64 * 1024 - 8) if nest < 320 or rng.chance(1, 4) else 16 * 1024
    mix = rng.choice(["unknown", "known", "mixed"])
    if mix == "unknown":
        code = bytes([rng.choice([5, 20, 25, 27, 30, 48, 49, 53, 57])]) * ln
    elif mix == "known":
        code = bytes([rng.choice([0, 1, 2, 4, 9, 13, 15])]) * ln
    else:
        code = rng.bytes(ln)
    empty = b"(" + struct.pack("<i", 0)

    def plain_code(consts):
        return (struct.pack("<iiii", 0, 0, 1, 64) + S(code) + consts + empty * 4 + S(b"f.py") + S(b"m") +
                struct.pack("<i", 1) + S(b""))

    # nested code objects: an encrypted code object holds its children still encrypted (each level one child)
    key = rng.bits(31)
    record = dropbox_encrypt_code(plain_code(empty), key)
    levels = 0
    for _ in range(nest):
        nxt = dropbox_encrypt_code(plain_code(b"(" + struct.pack("<i", 1) + record), key)
        if len(nxt) > cap:
            break
        record = nxt
        levels += 1
    data = struct.pack("<H", 62135) + b"\r\n" + struct.pack("<i", 0) + record
    return data[: 64 * 1024], {"kind": "not_bytecode", "what": "dropbox_valid", "magic": 62135, "len": len(data),
                              "code_len": ln, "opcode_mix": mix, "nested_levels": levels}


def synth_shared_tables(rng):
    """3.11+ layout: many small code objects whose localsplus tables (names and kinds) are back-references to ONE
    large shared object - per-code-object work that is quadratic in the table length multiplies up"""
    magic = rng.choice([3495, 3531, 3571])
    ln = rng.choice([2000, 20000, 32000, 40000])
    n = rng.choice([3, 6, 12, 2000])  # 2000: as many code objects as fit (each keeps its own copy of the split tables?)
    big = bytes([0xF3]) + struct.pack("<i", ln) + bytes([rng.choice([0xA0, 0xE0, 0x80, 0xC0, 0x60])]) * ln  # 's' | FLAG_REF -> slot 0
    # (bytes >= 0x80 that are not valid UTF-8, so that the shared table stays a bytes object: its items are ints
    # with the CO_FAST_LOCAL / CELL / FREE bits set)

    def code():
        return (b"c" + struct.pack("<iiiii", 0, 0, 0, 1, 0) + b"s\x02\x00\x00\x00S\x00" + b")\x00" + b")\x00" +
                b"r\x00\x00\x00\x00" + b"r\x00\x00\x00\x00" + b"z\x01f" + b"z\x01m" + b"z\x01m" +
                struct.pack("<i", 1) + b"s\x00\x00\x00\x00" + b"s\x00\x00\x00\x00")

    n = min(n, (64 * 1024 - 16 - 5 - len(big)) // len(code()))
    body = b"(" + struct.pack("<i", n + 1) + big + code() * n
    data = struct.pack("<H", magic) + b"\r\n" + b"\x00" * 12 + body
    return data[: 64 * 1024], {"kind": "not_bytecode", "what": "shared_localsplus_tables", "magic": magic,
                              "len": len(data), "table_len": ln, "code_objects": n}


# ---------------------------------------------------------------- not bytecode at all
def synth_not_bytecode(rng, magics):
    """An input that never was a .pyc. Returns (bytes, descriptor)."""
    kind = rng.choice(["empty", "short", "text", "elf", "zip", "gzip", "random", "magic+random", "magic+zeros",
                       "magic+pattern", "source", "magic+marshalish", "dropbox_like"])
    if kind == "dropbox_like" and rng.chance(1, 3):
        return synth_dropbox_valid(rng)
    if kind == "magic+marshalish" and rng.chance(1, 10):
        return synth_shared_tables(rng)
    if kind == "dropbox_like":
        # the encrypted-code layout of the dropbox loader: 'c', two key words (the second is also the byte count),
        # then the (here: random) cipher text; sizes 0, 1, odd, huge and negative
        b = rng.choice([0, 1, 15, 16, 17, 64, 200, 4096, 65536, 1 << 22, 1 << 24, 3 << 23, 1 << 25, (1 << 31) - 1, -1,
                        -16, rng.between(1, 600)])
        pad = (b + 15) & ~0xF
        body = rng.bytes(max(0, min(pad if pad > 0 else 0, 2000)) + rng.choice([0, 0, 1, 7]))
        if rng.chance(1, 2):
            data = struct.pack("<H", 62135) + rng.choice([b"\r\n", b"\r\n", rng.bytes(2)]) + rng.bytes(4) + \
                rng.choice([b"c", b"c", b"(\x01\x00\x00\x00c", b"[\x02\x00\x00\x00c"]) + \
                struct.pack("<i", rng.bits(32) - (1 << 31)) + struct.pack("<i", b) + body
        else:
            # the buffer-based reader behind this magic: containers with large counts, strings with small negative
            # lengths (pos + n moves backwards), string references out of range
            items = b"".join(rng.choice([b"s", b"t", b"u", b"R", b"i", b"l"]) +
                             struct.pack("<i", rng.choice([-1, -2, -4, -5, -5, -6, -9, 0, 3, (1 << 31) - 1]))
                             for _ in range(rng.between(1, 6)))
            data = struct.pack("<H", 62135) + b"\r\n" + rng.bytes(4) + \
                rng.choice([b"[", b"(", b"<", b">"]) + struct.pack("<i", rng.choice([(1 << 31) - 1, 1 << 22, 300000, 5])) + \
                items + rng.bytes(rng.between(0, 40))
        if len(data) < 50 and rng.chance(3, 4):
            data += b"N" * (50 - len(data))
        return data, {"kind": "not_bytecode", "what": kind, "magic": 62135, "len": len(data), "count": b}
    if kind == "empty":
        b = b""
    elif kind == "short":
        b = rng.bytes(rng.between(1, 60))
    elif kind == "text":
        b = (b"hello world, this is not bytecode\n" * rng.between(1, 40))[: rng.between(20, 900)]
    elif kind == "elf":
        b = b"\x7fELF\x02\x01\x01\x00" + rng.bytes(rng.between(40, 600))
    elif kind == "zip":
        b = b"PK\x03\x04\x14\x00\x00\x00\x08\x00" + rng.bytes(rng.between(40, 600))
    elif kind == "gzip":
        b = b"\x1f\x8b\x08\x00" + rng.bytes(rng.between(46, 600))
    elif kind == "random":
        b = rng.bytes(rng.between(50, 2000))
    elif kind == "source":
        b = b"# -*- coding: utf-8 -*-\nimport os\n\ndef f(x):\n    return x + 1\n" * rng.between(1, 8)
    else:
        m = rng.choice(magics) if magics else 3413
        tail = rng.choice([b"\r\n", b"\r\n", b"\r\n", b"\x99\x00", rng.bytes(2)])
        hdr = struct.pack("<H", m & 0xFFFF) + tail
        ln = rng.between(46, 1200)
        if kind == "magic+random":
            body = rng.bytes(ln)
        elif kind == "magic+zeros":
            body = b"\x00" * ln
        elif kind == "magic+pattern":
            body = (rng.bytes(rng.between(1, 7)) * ln)[:ln]
        else:
            # header words then a stream of plausible type codes and small ints
            body = struct.pack("<III", rng.choice([0, 1, 2, 3]), rng.bits(32), rng.bits(32))
            parts = []
            if rng.chance(1, 3):
                # a container with a huge count whose first item has a small negative length
                parts.append(rng.choice([b"[", b"(", b"<", b">"]) + struct.pack("<i", rng.choice([(1 << 31) - 1, 1 << 20, 300000])))
                parts.append(rng.choice([b"s", b"t", b"u", b"a", b"A"]) + struct.pack("<i", -rng.between(1, 12)))
            for _ in range(rng.between(10, 200)):
                c = rng.choice(TYPE_CODES)
                if rng.chance(1, 3):
                    c |= 0x80
                parts.append(bytes([c]) + struct.pack("<i", rng.choice(INT_SPECIALS[:8] + [3, 4, 5, -5, -4, -2])))
            body += b"".join(parts)
        b = hdr + body
        return b, {"kind": "not_bytecode", "what": kind, "magic": m, "len": len(b)}
    return b, {"kind": "not_bytecode", "what": kind, "len": len(b)}
