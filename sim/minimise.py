# Deterministic, bounded minimisation of a failing stored image (C11) and of a failing
# operation history (C18).  No randomness: same input -> same minimised output.
#
# Python 3.8 syntax.


class Budget:
    """A number of tests and, optionally, a wall-clock allowance.  The wall allowance only bounds how far a
    witness is shrunk (a report nicety): the verdict and the witness's validity never depend on it."""

    def __init__(self, n, wall_s=None):
        import time

        self.left = n
        self.tests = 0
        self.clock = time.time
        self.deadline = (time.time() + wall_s) if wall_s else None
        self.out_of_time = False

    def take(self):
        if self.deadline is not None and self.clock() > self.deadline:
            self.out_of_time = True
            return False
        if self.left <= 0:
            return False
        self.left -= 1
        self.tests += 1
        return True


def ddmin_list(items, pred, budget):
    """Smallest sublist (order kept) for which pred(sublist) holds; pred(items) is assumed."""
    n = 2
    cur = list(items)
    while len(cur) >= 2:
        chunk = max(1, len(cur) // n)
        subsets = [cur[i:i + chunk] for i in range(0, len(cur), chunk)]
        reduced = False
        # try complements first (drop one chunk)
        for k in range(len(subsets)):
            cand = [x for j, s in enumerate(subsets) if j != k for x in s]
            if not cand:
                continue
            if not budget.take():
                return cur
            if pred(cand):
                cur = cand
                n = max(n - 1, 2)
                reduced = True
                break
        if not reduced:
            if n >= len(cur):
                break
            n = min(len(cur), n * 2)
    if len(cur) == 1 and budget.take() and pred([]):
        return []
    return cur


def minimise_image(base, image, pred, max_tests=220, wall_s=None):
    """pred(bytes) -> True when the same violation class persists.  Returns (bytes, info)."""
    budget = Budget(max_tests, wall_s)
    info = {"strategy": [], "tests": 0}
    img = image
    if base is not None and len(base) == len(image) and base != image:
        diff = [i for i in range(len(image)) if image[i] != base[i]]
        if 1 < len(diff) <= 4096:

            def with_positions(pos):
                b = bytearray(base)
                for i in pos:
                    b[i] = image[i]
                return bytes(b)

            keep = ddmin_list(diff, lambda pos: pred(with_positions(pos)), budget)
            img = with_positions(keep)
            info["strategy"].append("delta-toward-valid: %d -> %d differing bytes" % (len(diff), len(keep)))
    # shortest failing prefix (binary search assumes monotonicity only as a heuristic; verified)
    lo, hi = 0, len(img)
    best = img
    while hi - lo > 1 and budget.left > 0:
        mid = (lo + hi) // 2
        if mid < 4:
            break
        cand = img[:mid]
        if not budget.take():
            break
        if pred(cand):
            best = cand
            hi = mid
        else:
            lo = mid
    if len(best) < len(img):
        info["strategy"].append("prefix: %d -> %d bytes" % (len(img), len(best)))
        img = best
    # remove chunks (keep the first 4 bytes: the magic selects the decoder)
    size = max(1, (len(img) - 4) // 2)
    while size >= 1 and budget.left > 0 and len(img) > 4:
        pos = 4
        removed_any = False
        while pos < len(img) and budget.left > 0:
            cand = img[:pos] + img[pos + size:]
            if len(cand) < len(img) and budget.take() and pred(cand):
                img = cand
                removed_any = True
            else:
                pos += size
        if size == 1:
            break
        size = max(1, size // 2)
        if not removed_any and size < 8 and len(img) > 512:
            break
    info["strategy"].append("chunk removal -> %d bytes" % len(img))
    info["tests"] = budget.tests
    if budget.out_of_time:
        info["strategy"].append("stopped by its wall-clock allowance")
    return img, info
