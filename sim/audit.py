# Interpreter-level observation seams used by the oracles:
#   * an audit hook (armed only inside the window of the call under test) that records
#     executing / importing / compiling / writing events,
#   * a deterministic step clock: number of 'line' events in frames whose code lives
#     under /repo/xdis (sys.settrace), with a budget,
#   * helpers: innermost xdis frame of a traceback, allowed import roots.
#
# Python 3.8 syntax.

import os
import sys
import sysconfig

from sim import core

XDIS_PREFIX = os.path.join(os.path.realpath(core.XDIS_DIR), "")
_XDIS_PREFIX_RAW = os.path.join(core.XDIS_DIR, "")


def _allowed_roots():
    roots = set()
    try:
        paths = sysconfig.get_paths()
        for k in ("stdlib", "platstdlib", "purelib", "platlib"):
            p = paths.get(k)
            if p:
                roots.add(os.path.join(os.path.realpath(p), ""))
    except Exception:
        pass
    roots.add(os.path.join(os.path.dirname(os.path.realpath(os.__file__)), ""))
    roots.add(XDIS_PREFIX)
    roots.add(_XDIS_PREFIX_RAW)
    roots.add(os.path.join(os.path.realpath(os.path.join(core.VERIF_DIR, "sim")), ""))
    return tuple(sorted(roots))


ALLOWED_ROOTS = _allowed_roots()


def path_allowed(p):
    if not p:
        return True
    if p.startswith("<frozen") or p.startswith("<"):
        return True
    try:
        rp = os.path.realpath(p)
    except Exception:
        return False
    return rp.startswith(ALLOWED_ROOTS) or p.startswith(ALLOWED_ROOTS)


def in_xdis(filename):
    return bool(filename) and (filename.startswith(XDIS_PREFIX) or filename.startswith(_XDIS_PREFIX_RAW))


_WRITE_FLAGS = os.O_WRONLY | os.O_RDWR | os.O_CREAT | os.O_TRUNC | os.O_APPEND

_DENY_EXACT = {
    "os.chmod", "os.chown", "os.chflags", "os.exec", "os.fork", "os.forkpty", "os.kill", "os.killpg", "os.link",
    "os.lockf", "os.mkdir", "os.posix_spawn", "os.remove", "os.removexattr", "os.rename", "os.rmdir",
    "os.setxattr", "os.spawn", "os.startfile", "os.symlink", "os.system", "os.truncate", "os.utime",
    "os.mkfifo", "os.mknod", "pty.spawn", "webbrowser.open", "signal.pthread_kill",
}
_DENY_PREFIX = ("subprocess.", "socket.", "shutil.", "tempfile.", "ctypes.", "urllib.", "http.", "ftplib.",
                "smtplib.", "poplib.", "imaplib.", "nntplib.", "telnetlib.", "sqlite3.", "ensurepip.",
                "fcntl.", "syslog.")


class AuditState:
    def __init__(self):
        self.armed = False
        self.installed = False
        self.violations = []  # [(class, detail)]
        self.input_path = None
        self.input_bytes = b""
        self.fast_path = False  # marshal.loads reached from xdis/load.py
        self.marshal_calls = 0
        self.events = {}  # event -> count (armed window only)
        self.record_events = False
        self.marker_fd = None  # survives a crash: b"F" written when the fast path is entered


STATE = AuditState()


def _hook(event, args):
    st = STATE
    if not st.armed:
        return
    if st.record_events:
        st.events[event] = st.events.get(event, 0) + 1
    try:
        if event == "open":
            path, mode, flags = args[0], args[1], args[2]
            bad = False
            if isinstance(mode, str) and any(c in mode for c in "wax+"):
                bad = True
            if isinstance(flags, int) and (flags & _WRITE_FLAGS):
                bad = True
            if bad:
                st.violations.append(("fs_write", "open %r mode=%r flags=%r" % (_short(path), mode, flags)))
        elif event == "marshal.loads" or event == "marshal.load":
            st.marshal_calls += 1
            f = sys._getframe(1)
            if f is not None and in_xdis(f.f_code.co_filename):
                st.fast_path = True
                if st.marker_fd is not None:
                    os.write(st.marker_fd, b"F")
        elif event == "compile":
            src, fname = args[0], args[1]
            f = sys._getframe(1)
            caller = f.f_code.co_filename if f is not None else ""
            why = None
            if in_xdis(caller):
                why = "compile() called from xdis code %s:%s" % (os.path.basename(caller), f.f_code.co_name)
            elif isinstance(fname, (str, bytes)) and st.input_path and _same_path(fname, st.input_path):
                why = "compile() of the input file path"
            else:
                sb = None
                if isinstance(src, str):
                    sb = src.encode("utf-8", "surrogatepass")
                elif isinstance(src, (bytes, bytearray)):
                    sb = bytes(src)
                if sb is not None and len(sb) >= 16 and st.input_bytes:
                    ib = st.input_bytes
                    if sb in ib or (len(ib) >= 16 and (ib in sb or ib[8:] in sb or ib[16:] in sb)):
                        why = "compile() of file-derived source"
            if why:
                st.violations.append(("compile", why))
        elif event == "exec":
            code = args[0]
            f = sys._getframe(1)
            caller = f.f_code.co_filename if f is not None else ""
            cf = getattr(code, "co_filename", "")
            if in_xdis(caller):
                st.violations.append(("exec", "exec/eval called from xdis code %s:%s" % (
                    os.path.basename(caller), f.f_code.co_name)))
            elif not path_allowed(cf):
                st.violations.append(("exec", "exec of code from %r" % _short(cf)))
        elif event == "import":
            fname = args[1]
            if fname and not path_allowed(fname):
                st.violations.append(("import", "import of %r from %r" % (args[0], _short(fname))))
        elif event in _DENY_EXACT or event.startswith(_DENY_PREFIX):
            st.violations.append(("side_effect", "%s%r" % (event, tuple(_short(a) for a in args[:2]))))
    except Exception as e:  # never let the observer disturb the observed
        st.violations.append(("harness", "audit hook failed: %r" % (e,)))


def _same_path(a, b):
    try:
        if isinstance(a, bytes):
            a = os.fsdecode(a)
        return os.path.realpath(a) == os.path.realpath(b)
    except Exception:
        return False


def _short(x):
    try:
        s = x if isinstance(x, str) else repr(x)
    except Exception:
        s = "<unrepr>"
    return s if len(s) <= 120 else s[:117] + "..."


def install():
    if not STATE.installed:
        sys.addaudithook(_hook)
        STATE.installed = True


def arm(input_path=None, input_bytes=b"", record_events=False):
    st = STATE
    st.violations = []
    st.input_path = input_path
    st.input_bytes = input_bytes
    st.fast_path = False
    st.marshal_calls = 0
    st.events = {}
    st.record_events = record_events
    st.armed = True


def disarm():
    STATE.armed = False


# ------------------------------------------------------------------------ step clock


class StepBudgetExceeded(BaseException):
    """Raised by the step clock inside the code under test; BaseException so that
    ``except Exception`` handlers in xdis cannot swallow it."""


class StepClock:
    def __init__(self, budget):
        self.budget = budget
        self.steps = 0
        self.exceeded = False
        self.last = None

    def _local(self, frame, event, arg):
        if event == "line":
            self.steps += 1
            if self.steps > self.budget:
                self.exceeded = True
                code = frame.f_code
                self.last = "%s:%s" % (os.path.basename(code.co_filename), code.co_name)
                raise StepBudgetExceeded(self.last)
        return self._local

    def _global(self, frame, event, arg):
        if event == "call":
            fn = frame.f_code.co_filename
            if fn.startswith(XDIS_PREFIX) or fn.startswith(_XDIS_PREFIX_RAW):
                return self._local
        return None

    def start(self):
        sys.settrace(self._global)

    def stop(self):
        sys.settrace(None)


# ------------------------------------------------------------------------- tracebacks


def innermost_xdis_frame(tb):
    """(relative file, function) of the deepest traceback frame under /repo/xdis."""
    site = None
    while tb is not None:
        code = tb.tb_frame.f_code
        if in_xdis(code.co_filename):
            rel = code.co_filename
            for pre in (XDIS_PREFIX, _XDIS_PREFIX_RAW):
                if rel.startswith(pre):
                    rel = rel[len(pre):]
                    break
            site = "%s:%s" % (rel, code.co_name)
        tb = tb.tb_next
    return site or "<outside xdis>"


def new_foreign_modules(before_names):
    bad = []
    for name in sorted(set(sys.modules) - before_names):
        m = sys.modules.get(name)
        f = getattr(m, "__file__", None)
        if f and not path_allowed(f):
            bad.append("%s <- %s" % (name, _short(f)))
    return bad
