# Entry point: ./check <C07|C11|C18|selftest> [--tier quick|thorough] [--seed N] [--replay FILE] ...
# Python 3.8 syntax.
import os
import sys

sys.path.insert(0, os.path.dirname(os.path.dirname(os.path.abspath(__file__))))

from sim import core  # noqa: E402


def parse(argv):
    opts = {"tier": os.environ.get("VERIF_TIER") or "quick", "seed": None, "replay": None, "runs": None,
            "workers": None, "no_selftest": False, "hosts": None, "sub": None, "no_hosts": False, "chains": None}
    pos = []
    it = iter(argv)
    for a in it:
        if a == "--tier":
            opts["tier"] = next(it)
        elif a == "--seed":
            opts["seed"] = int(next(it))
        elif a == "--replay":
            opts["replay"] = next(it)
        elif a == "--runs":
            opts["runs"] = int(next(it))
        elif a == "--workers":
            opts["workers"] = int(next(it))
        elif a == "--hosts":
            opts["hosts"] = next(it)
        elif a == "--chains":
            opts["chains"] = int(next(it))
        elif a == "--sub":
            opts["sub"] = next(it)
        elif a == "--no-hosts":
            opts["no_hosts"] = True
        elif a == "--no-selftest":
            opts["no_selftest"] = True
        elif a.startswith("--"):
            raise SystemExit("unknown option %s" % a)
        else:
            pos.append(a)
    if not pos:
        raise SystemExit("usage: check <C07|C11|C18|selftest> [--tier quick|thorough] [--seed N] [--replay F]")
    opts["what"] = pos[0]
    opts["pos"] = pos
    if opts["tier"] not in ("quick", "thorough"):
        raise SystemExit("bad tier")
    if opts["seed"] is None:
        s = os.environ.get("VERIF_SEED")
        try:
            opts["seed"] = int(s) if s not in (None, "") else 20261001
        except ValueError:
            import hashlib

            opts["seed"] = int.from_bytes(hashlib.sha256(s.encode()).digest()[:6], "big")
    return opts


def main():
    core.pin_environment_and_reexec()
    opts = parse(sys.argv[1:])
    what = opts["what"]
    try:
        if what == "C11":
            from sim import c11

            rc = c11.replay(opts["replay"]) if opts["replay"] else c11.main(opts)
        elif what == "C18":
            from sim import c18

            rc = c18.replay(opts["replay"]) if opts["replay"] else c18.main(opts)
        elif what == "C07":
            from sim import c07

            rc = c07.replay(opts["replay"]) if opts["replay"] else c07.main(opts)
        elif what == "digest":
            from sim import selftest

            rc = selftest.digest_mode(opts["pos"][1], int(opts["pos"][2]), opts["seed"])
        elif what == "selftest":
            from sim import selftest

            rc = selftest.main(opts)
        else:
            raise SystemExit("unknown check %s" % what)
    except core.HarnessError as e:
        core.log("HARNESS-ERROR: %s" % (e,))
        rc = core.EXIT_HARNESS
    sys.stdout.flush()
    sys.exit(rc)


if __name__ == "__main__":
    main()
