# Self-tests that gate trust in the simulator (DESIGN.md 2.6):
#   determinism - the same seeds twice, at worker counts 1 / 4 / 16, and once more in a fresh
#                 interpreter under a different PYTHONHASHSEED (verdict digests), for C11 and C18;
#                 C07: the same files decoded twice by every node give identical rows.
# A mismatch is a HARNESS-ERROR (exit 2), never a VIOLATION line.
#
# Python 3.8 syntax.
import os
import subprocess
import sys
import time

from sim import core, corpus


def _sub_digest(what, n, hashseed):
    env = dict(os.environ)
    env.pop(core.PIN_MARK, None)
    env["XDIS_VERIF_HASHSEED"] = str(hashseed)
    env.pop("XDIS_VERIF_SCRATCH", None)
    p = subprocess.run([sys.executable, "-B", os.path.join(core.VERIF_DIR, "sim", "main.py"), "digest", what, str(n)],
                       env=env, stdout=subprocess.PIPE, stderr=subprocess.PIPE, timeout=1800)
    for ln in p.stdout.decode().splitlines():
        if ln.startswith("DIGEST "):
            return ln.split()[1:]
    raise core.HarnessError("digest subprocess failed: %s" % p.stderr.decode()[-400:])


def digest_mode(what, n, seed):
    """used by the fresh-interpreter leg: prints DIGEST <full> <verdict>"""
    if what == "C11":
        from sim import c11

        c11.prepare(seed, "quick", corpus.produce_corpus(seed, 1, 1))
        f, v, _ = c11.digest_run(seed, n, core.default_workers())
    else:
        from sim import c18

        c18.prepare(seed, "quick", corpus.produce_corpus(seed, 1, 1))
        f, v, _ = c18.digest_run(n, core.default_workers())
    print("DIGEST %s %s" % (f, v))
    return 0


def main(opts):
    t0 = time.time()
    seed = opts["seed"]
    thorough = opts["tier"] == "thorough"
    n11 = 4000 if thorough else 800
    n18 = 120 if thorough else 24
    bad = []
    from sim import c11

    produced = corpus.produce_corpus(seed, 1, 1)
    c11.prepare(seed, "quick", produced)
    runs = []
    for w in (1, 4, 16, 16):
        if w == 1 and not thorough:
            f, v, tot = c11.digest_run(seed, n11 // 4, 1)
            f4, v4, _ = c11.digest_run(seed, n11 // 4, 4)
            if v != v4:
                bad.append("C11: 1 worker vs 4 workers differ on %d runs" % (n11 // 4))
            continue
        f, v, tot = c11.digest_run(seed, n11, w)
        runs.append((w, f, v))
    # verdict digests must agree; the full digest (which includes step counts) is reported only: step counts
    # may depend on what ran earlier in the same batch process if the tree under test memoises anything
    if len(set(v for _, f, v in runs)) != 1:
        bad.append("C11 verdict digests differ across worker counts / repetitions: %s" % runs)
    full_same = len(set(f for _, f, v in runs)) == 1
    sf, sv = _sub_digest("C11", n11, 4242)
    if sv != runs[0][2]:
        bad.append("C11 verdict digest differs under PYTHONHASHSEED=4242: %s vs %s" % (sv, runs[0][2]))
    core.log("[selftest] C11: %d runs x %d layouts + other hash seed: %s (step counts layout-independent: %s)" % (
        n11, len(runs), "ok" if not bad else "MISMATCH", full_same and sf == runs[0][1]))
    from sim import c18

    c18.prepare(seed, "quick", produced)
    runs18 = []
    for w in (1, 4, 16):
        f, v, tot = c18.digest_run(n18 if w > 1 else max(4, n18 // 4), w)
        if w == 1:
            f4, v4, _ = c18.digest_run(max(4, n18 // 4), 4)
            if (f, v) != (f4, v4):
                bad.append("C18: 1 worker vs 4 workers differ")
            continue
        runs18.append((w, f, v))
    if len(set((f, v) for _, f, v in runs18)) != 1:
        bad.append("C18 digests differ across worker counts: %s" % runs18)
    sf, sv = _sub_digest("C18", n18, 4242)
    if sv != runs18[0][2]:
        bad.append("C18 verdict digest differs under PYTHONHASHSEED=4242: %s vs %s" % (sv, runs18[0][2]))
    core.log("[selftest] C18: %d histories x %d layouts + other hash seed: %s" % (n18, len(runs18), "ok" if not bad else bad))
    # C07: the same rows twice
    from sim import c07

    cfg = dict(c07.TIERS["quick"])
    cfg["produce"] = (1, 1)
    cfg["max_files"] = 40
    c07.prepare(seed, "quick", cfg)
    jobs = c07.plan_jobs(seed, "quick")
    r1 = c07.run_nodes(jobs, core.default_workers())
    r2 = c07.run_nodes(jobs, 4)
    if r1 != r2:
        bad.append("C07: node results differ between two executions")
    core.log("[selftest] C07: %d files x %d hosts twice: %s" % (len(c07.W["bases"]), len(c07.W["hosts"]),
                                                                 "ok" if r1 == r2 else "MISMATCH"))
    if bad:
        for b in bad:
            core.log("HARNESS-ERROR: " + b)
        return core.EXIT_HARNESS
    print("SELFTEST ok (%.1fs)" % (time.time() - t0))
    return core.EXIT_OK
