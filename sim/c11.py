# C11 - corrupt or hostile bytecode files fail cleanly.
#
# Simulated world: a producer meant to store a valid .pyc; the storage medium applies a
# seeded sequence of faults (simdisk); the real xdis.load.load_module then reads the
# resulting real file.  Oracle (evaluated inside each run): 7-tuple or ImportError, no
# exec/import/compile of file-derived material, no filesystem writes, interpreter
# survives, bounded steps on the deterministic step clock, bounded resident memory.
#
# Python 3.8 syntax.

import os
import signal
import struct
import sys
import time

# This process forks (pool workers, single-run children) while a background thread replays the stored witnesses.
# A fork taken while another thread is in the middle of an import leaves that module's import lock held for ever
# in the child, and a child that then needs the module hangs - which would look like a stalled load.  So everything
# the harness imports lazily is imported here, before any thread exists.
import concurrent.futures.process  # noqa: F401,E402
import ctypes  # noqa: F401,E402
import faulthandler  # noqa: F401,E402
import glob  # noqa: F401,E402
import json  # noqa: F401,E402
import linecache  # noqa: F401,E402
import multiprocessing  # noqa: F401,E402
import pathlib  # noqa: F401,E402
import random  # noqa: F401,E402
import resource  # noqa: F401,E402
import subprocess  # noqa: F401,E402
import tempfile  # noqa: F401,E402
import threading  # noqa: F401,E402

from sim import audit, core, corpus, simdisk

PROP = "C11"

# The floor is what the loader's own budgets allow a tiny file to cost in Python-level work: its hash-cost budget
# admits ~1.5 M calls of UnicodeForPython3.__hash__ (~0.7 s of CPU, ~6 M line events) from a few hundred bytes.
# A floor of 5000 steps flagged such a 256-byte file (30 ms of CPU) as not prompt: a false alarm (DESIGN A.3).
STEP_BASE = 8000000
STEP_PER_BYTE = 400
RSS_LIMIT_KB = 256 * 1024
BATCH = 24
LONG_BATCH = 120
SHARD = 120

# populated by prepare() in the coordinator before any worker is forked
W = {
    "bases": [],        # [BaseFile]
    "readmaps": [],     # parallel to bases
    "magics": [],       # known magic ints (from the tree under test; used only to aim faults)
    "host_magic": None,
    "master": 0,
    "tier": "quick",
    "rundir": None,
    "sweep": None,
}


# ------------------------------------------------------------------------ preparation


def _readmaps_child(lo, hi):
    out = []
    for k in range(lo, hi):
        b = W["bases"][k]
        try:
            rm = corpus.read_map(b.data, b.name)
        except BaseException:
            rm = []
        om = corpus.object_map(b.data)
        out.append([rm, sorted(om.items())])
    return out


def _readmap_job(c):
    rr = core.fork_call(_readmaps_child, c, timeout=300)
    if rr.status != "ok":
        raise core.HarnessError("read-map child failed: %r %s" % (rr, rr.value))
    return rr.value


def _magic_table_child():
    import xdis.magics as m

    return {"magics": sorted(int(k) for k in m.magicint2version.keys()), "host": int(m.PYTHON_MAGIC_INT)}


def prepare(master, tier, extra_bases=None):
    core.verify_xdis_origin()
    audit.install()
    W["master"] = master
    W["tier"] = tier
    bases = corpus.repo_corpus()
    if extra_bases:
        bases += extra_bases
    bases.sort(key=lambda b: (b.origin, b.path))
    W["bases"] = bases
    r = core.fork_call(_magic_table_child, timeout=60)
    if r.status != "ok":
        raise core.HarnessError("cannot read magic table: %r %s" % (r, r.value))
    W["magics"] = r.value["magics"]
    W["host_magic"] = r.value["host"]
    # read maps, computed in forks so that this process never runs a loader itself
    n = len(bases)
    step = max(1, (n + 15) // 16)
    chunks = [(lo, min(n, lo + step)) for lo in range(0, n, step)]

    maps = []
    omaps = []
    for part in core.run_sharded(_readmap_job, chunks, core.default_workers()):
        for rm, om in part:
            maps.append([tuple(x) for x in rm])
            omaps.append(dict((int(a), int(b)) for a, b in om))
    W["readmaps"] = maps
    W["objmaps"] = omaps
    W["rundir"] = os.path.join(core.scratch_dir(), "c11")
    os.makedirs(W["rundir"], exist_ok=True)


# ------------------------------------------------------------------------------ plans


class Plan:
    __slots__ = ("index", "seed", "name", "image", "base_index", "faults", "fast_load", "get_code",
                 "count_steps", "control", "base_desc", "kind", "call")

    def key_kinds(self):
        return tuple(sorted(set(f["kind"] for f in self.faults)))


def plan_run(i):
    """Everything about run i is a pure function of (master seed, i) and the corpus."""
    seed = core.derive_seed(W["master"], PROP, i)
    rng = core.SeedStream(seed)
    p = Plan()
    p.index = i
    p.seed = seed
    p.kind = "file"
    bases = W["bases"]
    # swarm: the subset of fault kinds enabled in this run
    kinds = list(simdisk.FAULT_KINDS)
    enabled = [k for k in kinds if rng.chance(2, 3)] or [rng.choice(kinds)]
    p.fast_load = rng.chance(1, 5)
    p.get_code = not rng.chance(1, 8)
    # how the caller names the file and what else it passes: non-ASCII / very long / odd names, a relative path,
    # a caller-supplied code_objects dict
    p.call = {"name_style": rng.weighted([("as_is", 12), ("unicode", 1), ("long", 1), ("spaces", 1), ("pyo", 1)]),
              "relative": rng.chance(1, 10), "code_objects": rng.chance(1, 10),
              # open() takes bytes and os.PathLike names too, so callers pass them
              "path_type": rng.weighted([("str", 14), ("bytes", 1), ("pathlike", 1)])}
    p.count_steps = rng.chance(1, 2)
    mode = rng.weighted([("fault", 80), ("control", 8), ("not_bytecode", 12)])
    p.control = mode == "control"
    if mode == "not_bytecode":
        img, d = simdisk.synth_not_bytecode(rng, W["magics"])
        p.image = img
        p.faults = [d]
        p.base_index = -1
        p.name = rng.choice(["junk.pyc", "junk.pyo", "junk.pypy38.pyc"])
        p.base_desc = None
        if rng.chance(1, 12):
            # not even a regular file: what the path names is a directory, a FIFO, a dangling symlink, or a
            # symlink to the stored bytes
            p.kind = rng.choice(["dir", "fifo", "dangling", "symlink", "lying_size", "lying_size"])
            p.faults = [dict(d, storage_object=p.kind)]
        return p
    # host-magic bases are over-sampled: they are the only ones that reach the fast path
    hm = W["host_magic"]
    hostb = [k for k, b in enumerate(bases) if b.magic_int == hm]
    if hostb and rng.chance(1, 5):
        bi = rng.choice(hostb)
    else:
        bi = rng.below(len(bases))
    base = bases[bi]
    p.base_index = bi
    p.name = base.name
    p.base_desc = base.describe()
    if p.control:
        p.image = base.data
        p.faults = []
        return p
    oidx = [rng.below(len(bases)) for _ in range(2)]
    others = [bases[k].data for k in oidx]
    ctx = simdisk.FaultCtx(base.data, others, W["readmaps"][bi], W["magics"], [W["readmaps"][k] for k in oidx],
                           W["objmaps"][bi])
    img, fired = simdisk.apply_fault_sequence(rng, ctx, enabled, 4)
    p.image = img
    p.faults = fired
    return p


def styled_name(name, style):
    """the file name as the caller spells it; the pypy38 suffix, which load.py inspects, is always kept"""
    keep = ""
    for suf in (".pypy38.pyc", ".pyc", ".pyo"):
        if name.endswith(suf):
            keep = suf
            name = name[: -len(suf)]
            break
    if style == "unicode":
        name = "f\u00fc\u00f1\u4e2d_" + name
    elif style == "long":
        name = (name + "_") * 12
        name = name[:180]
    elif style == "spaces":
        name = "a b  " + name + " "
    elif style == "pyo" and keep == ".pyc":
        keep = ".pyo"
    return name + (keep or ".pyc")


def predicts_fast_path(image, get_code):
    if not get_code or len(image) < 50:
        return False
    try:
        return struct.unpack("<H", image[:2])[0] == W["host_magic"]
    except Exception:
        return False


# ------------------------------------------------------------------------------ oracle


def _snapshot(d):
    out = []
    for n in sorted(os.listdir(d)):
        p = os.path.join(d, n)
        try:
            st = os.lstat(p)
            out.append((n, st.st_size, st.st_mtime_ns, st.st_mode))
        except OSError:
            out.append((n, -1, -1, -1))
    return out


def _clean_dir(d):
    try:
        names = os.listdir(d)
    except OSError:
        return
    for n in names:
        p = os.path.join(d, n)
        try:
            if os.path.isdir(p) and not os.path.islink(p):
                import shutil

                shutil.rmtree(p, ignore_errors=True)
            else:
                os.unlink(p)
        except OSError:
            pass


def _maxrss_kb():
    import resource

    return resource.getrusage(resource.RUSAGE_SELF).ru_maxrss


def _call_under_test(path, fast_load, get_code, call=None):
    from xdis.load import load_module

    call = call or {}
    kw = {}
    if call.get("code_objects"):
        kw["code_objects"] = {}
    cwd = None
    if call.get("relative"):
        cwd = os.getcwd()
        os.chdir(os.path.dirname(path))
        path = os.path.basename(path)
    if call.get("path_type") == "bytes":
        path = os.fsencode(path)
    elif call.get("path_type") == "pathlike":
        import pathlib

        path = pathlib.Path(path)
    try:
        with core.FixedHeadroom():
            return load_module(path, fast_load=fast_load, get_code=get_code, **kw)
    finally:
        if cwd is not None:
            os.chdir(cwd)


def exec_image(image, name, fast_load, get_code, count_steps, tag="r", kind="file", call=None):
    """Run the real loader on one stored image.  Returns a record dict:
       outcome: "return" | "ImportError" | "exception" | "steps"
       violation: None or {"class":..., ...signature fields...}
    """
    d = os.path.join(W["rundir"], "%s-%d" % (tag, os.getpid()))
    os.makedirs(d, exist_ok=True)
    _clean_dir(d)  # a previous run cut short by the wall guard may have left its storage object behind
    call = call or {}
    name = styled_name(name, call.get("name_style", "as_is"))
    path = os.path.join(d, name)
    if kind == "dir":
        os.mkdir(path)
    elif kind == "fifo":
        os.mkfifo(path)
    elif kind == "dangling":
        os.symlink(os.path.join(d, "no-such-target"), path)
    elif kind == "symlink":
        with open(os.path.join(d, "target.bin"), "wb") as f:
            f.write(image)
        os.symlink(os.path.join(d, "target.bin"), path)
    elif kind == "lying_size":
        # a file whose stat size (4096) is not what a read delivers (2-6 bytes): kernel pseudo-files do that,
        # and so does a file truncated between the size check and the read
        cands = [c for c in LYING_FILES if os.path.exists(c)]
        os.symlink(cands[len(image) % len(cands)] if cands else os.path.join(d, "no-such-target"), path)
    else:
        with open(path, "wb") as f:
            f.write(image)
    before = _snapshot(d)
    mods_before = set(sys.modules)
    old_out, old_err = sys.stdout, sys.stderr
    sink_out, sink_err = corpus.Sink(), corpus.Sink()
    budget = STEP_BASE + STEP_PER_BYTE * len(image)
    if sys.version_info < (3, 9):
        # CPython 3.8 aborts ("Cannot recover from stack overflow") when a trace function runs at the
        # recursion edge of a nesting bomb: a harness artefact, so 3.8 nodes rely on the wall watchdog only
        count_steps = False
    clock = audit.StepClock(budget) if count_steps else None
    rec = {"outcome": None, "violation": None, "site": None, "steps": None, "fast_path": False, "exc": None}
    rss0 = _maxrss_kb()
    sys.stdout, sys.stderr = sink_out, sink_err
    result = None
    if clock:
        clock.start()
    audit.arm(path, image)
    try:
        try:
            result = _call_under_test(path, fast_load, get_code, call)
            rec["outcome"] = "return"
        except ImportError as e:
            rec["outcome"] = "ImportError"
            rec["site"] = audit.innermost_xdis_frame(e.__traceback__)
        except audit.StepBudgetExceeded as e:
            rec["outcome"] = "steps"
            rec["site"] = str(e)
        except _WallGuard:
            raise
        except BaseException as e:
            rec["outcome"] = "exception"
            rec["exc"] = type(e).__name__
            rec["site"] = audit.innermost_xdis_frame(e.__traceback__)
            rec["msg"] = repr(e)[:200]
    finally:
        audit.disarm()
        if clock:
            clock.stop()
        sys.stdout, sys.stderr = old_out, old_err
    rss1 = _maxrss_kb()
    st = audit.STATE
    fast = bool(st.fast_path)
    if sys.version_info < (3, 9) and predicts_fast_path(image, get_code):
        fast = True  # no marshal.loads audit event before 3.9: the magic decides
    rec["fast_path"] = fast
    if clock:
        rec["steps"] = clock.steps
    rec["stdout_bytes"] = sink_out.n
    # ---- verdict, most specific first
    v = None
    if rec["outcome"] == "exception":
        v = {"class": "exception", "exc": rec["exc"], "site": rec["site"]}
    elif rec["outcome"] == "steps":
        v = {"class": "not_prompt", "site": rec["site"], "budget": budget}
    elif rec["outcome"] == "return" and not (isinstance(result, tuple) and len(result) == 7):
        v = {"class": "return_shape", "type": type(result).__name__}
    if v is None and st.violations:
        cls, detail = st.violations[0]
        v = {"class": cls, "detail": detail}
    if v is None:
        after = _snapshot(d)
        if after != before:
            v = {"class": "fs_write", "detail": "directory of the input changed: %r -> %r" % (before[:4], after[:4])}
    if v is None:
        foreign = audit.new_foreign_modules(mods_before)
        if foreign:
            v = {"class": "import", "detail": "; ".join(foreign[:3])}
    if v is None and rss1 - rss0 > RSS_LIMIT_KB:
        v = {"class": "memory", "fast_path": fast,
             "detail": "resident set grew by %d KiB for a %d-byte file" % (rss1 - rss0, len(image))}
    rec["violation"] = v
    result = None
    try:
        for n in os.listdir(d):
            try:
                os.unlink(os.path.join(d, n))
            except (IsADirectoryError, PermissionError):
                import shutil

                shutil.rmtree(os.path.join(d, n), ignore_errors=True)
            except OSError:
                pass
    except OSError:
        pass
    return rec


def _compact(plan, rec):
    if rec.get("violation") is not None and plan.control:
        rec = dict(rec)
        rec["violation"] = dict(rec["violation"], control=True)
    return {
        "i": plan.index,
        "k": list(plan.key_kinds()),
        "nf": len(plan.faults),
        "o": rec["outcome"],
        "s": rec.get("site"),
        "v": rec.get("violation"),
        "st": rec.get("steps"),
        "fp": rec.get("fast_path"),
        "n": len(plan.image),
        "ctl": bool(plan.control),
        "so": rec.get("stdout_bytes", 0),
        "fl": bool(plan.fast_load),
        "gc": bool(plan.get_code),
        "h": core.sha256_hex(plan.image)[:12],
        "sk": plan.kind,
    }


LYING_FILES = ["/sys/class/net/lo/addr_len", "/sys/class/net/lo/mtu", "/sys/devices/system/cpu/online",
               "/sys/class/net/lo/ifindex"]
CPU_BUDGET_S = 12   # CPU seconds one load of a <= 64 KiB file may burn (typical: milliseconds)
BATCH_CPU_GUARD_S = 4
WALL_GUARD_S = 3.0
SEQ = {"n": 0}
SLOW = {"seen": 0}  # per worker process: confirmed slow runs so far (only steers cost, never a verdict)


class _WallGuard(BaseException):
    pass


def _on_alarm(signum, frame):
    raise _WallGuard()


NOFILE_SPARE = 6


def _small_fd_table():
    """resource fault: a small descriptor table, so that a loader that leaks one descriptor per failed load runs
    out (EMFILE) within one long batch instead of after a thousand loads"""
    try:
        import resource

        soft, hard = resource.getrlimit(resource.RLIMIT_NOFILE)
        try:
            highest = max(int(x) for x in os.listdir("/proc/self/fd")) + 1
        except Exception:
            highest = 40
        # the limit is on the highest descriptor NUMBER: leave room for NOFILE_SPARE more than are open now
        resource.setrlimit(resource.RLIMIT_NOFILE, (min(highest + NOFILE_SPARE, soft), hard))
    except Exception:
        pass


def _batch_child(emit, indices, force_steps=False):
    import signal

    _small_fd_table()
    signal.signal(signal.SIGALRM, _on_alarm)
    for i in indices:
        p = plan_run(i)
        # cheap wall guard so that a hang costs seconds, not the batch watchdog; it is never a verdict:
        # the parent re-executes the run alone under the deterministic step clock
        signal.setitimer(signal.ITIMER_REAL, WALL_GUARD_S)
        # per-run CPU guard for time spent inside one C call (which no Python-level handler can interrupt):
        # the soft RLIMIT_CPU is re-armed before every run; SIGXCPU ends the batch, the parent then re-executes
        # the run in progress alone under the full CPU budget, which is the verdict
        try:
            import resource

            used = int(time.process_time()) + 1
            resource.setrlimit(resource.RLIMIT_CPU, (used + BATCH_CPU_GUARD_S, resource.getrlimit(resource.RLIMIT_CPU)[1]))
        except Exception:
            pass
        try:
            rec = exec_image(p.image, p.name, p.fast_load, p.get_code, p.count_steps or force_steps, kind=p.kind,
                             call=p.call)
        except _WallGuard:
            rec = {"outcome": "wall_guard", "violation": None, "site": None, "steps": None, "fast_path": False,
                   "exc": None}
            sys.settrace(None)
            audit.disarm()
        except OSError as e:
            rec = _harness_oserror(e)
        finally:
            signal.setitimer(signal.ITIMER_REAL, 0)
        emit(_compact(p, rec))
    return len(indices)


def _harness_oserror(e):
    """The simulator's own file handling failed.  EMFILE/ENFILE under the small descriptor table means earlier
    loads in this process left descriptors open: that is a finding about them, not a harness failure."""
    import errno

    sys.settrace(None)
    audit.disarm()
    full = e.errno in (errno.EMFILE, errno.ENFILE)
    if not full:
        # any other failure of the harness's own file handling may be a knock-on effect of a full table
        # (e.g. it could not list and clean its run directory): probe the table directly
        try:
            os.close(os.open(os.devnull, os.O_RDONLY))
        except OSError as e2:
            full = e2.errno in (errno.EMFILE, errno.ENFILE)
    if full:
        nfd = -1
        return {"outcome": "fd_exhaustion", "site": None, "steps": None, "fast_path": False, "exc": None,
                "violation": {"class": "fd_exhaustion",
                              "detail": "descriptor table full (%s descriptors open) after earlier loads" % nfd}}
    raise e


def _sequence_child(emit, items):
    """several stored images loaded one after the other in ONE process (items: explicit images)"""
    import signal

    _small_fd_table()
    signal.signal(signal.SIGALRM, _on_alarm)
    for k, it in enumerate(items):
        signal.setitimer(signal.ITIMER_REAL, WALL_GUARD_S if k < len(items) - 1 else 4 * WALL_GUARD_S)
        try:
            rec = exec_image(core.unb64(it["image_b64"]), it["name"], it["fast_load"], it["get_code"],
                             bool(it.get("count_steps")), tag="q", kind=it.get("kind", "file"), call=it.get("call"))
        except _WallGuard:
            # a load that blocks (e.g. on a FIFO) must not hold up the sequence; for the LAST item it is the verdict
            sys.settrace(None)
            audit.disarm()
            rec = {"outcome": "stall", "site": None, "violation": {"class": "stall", "site": None} if k == len(items) - 1 else None}
        except OSError as e:
            rec = _harness_oserror(e)
        finally:
            signal.setitimer(signal.ITIMER_REAL, 0)
        emit({"k": k, "o": rec["outcome"], "v": rec["violation"], "s": rec.get("site")})
    return len(items)


def run_sequence(items, wall=None):
    """Returns the violation of the LAST item when the items are loaded in sequence in a fresh fork of the
    zygote (None when clean).  A death of the process while item k is in progress is reported for item k."""
    got = []
    flog = os.path.join(W["rundir"], "fault-seq-%d.log" % os.getpid())
    r = core.fork_call(_sequence_child, (items,), timeout=wall or (60.0 + 5.0 * len(items)), stream=True,
                       on_record=got.append, faultlog_path=flog, quiet=True, cpu_limit=CPU_BUDGET_S + 8)
    try:
        os.unlink(flog)
    except OSError:
        pass
    if r.status == "error":
        raise core.HarnessError("sequence child failed: %s" % (r.value,))
    last = len(items) - 1
    if r.status == "ok":
        for c in got:
            if c["k"] == last:
                return c["v"]
        return None
    done = len(got)
    if done != last:
        return None  # died earlier than the item we are asking about
    if r.status == "signal" and int(r.signal) == int(signal.SIGXCPU):
        return {"class": "not_prompt", "by": "cpu", "fast_path": False, "site": _fault_site(r.faultlog),
                "in_sequence": True}
    if r.status == "signal":
        return {"class": "crash", "signal": int(r.signal), "fast_path": False, "site": _fault_site(r.faultlog),
                "in_sequence": True}
    return {"class": "stall", "site": _fault_site(r.faultlog), "in_sequence": True}


def _item_of(plan):
    return {"image_b64": core.b64(plan.image), "name": plan.name, "fast_load": plan.fast_load,
            "get_code": plan.get_code, "run_index": plan.index, "count_steps": bool(plan.count_steps), "kind": plan.kind, "call": plan.call}


def _single_child(image_b64, name, fast_load, get_code, count_steps, marker, kind="file", call=None):
    if marker:
        audit.STATE.marker_fd = os.open(marker, os.O_WRONLY | os.O_CREAT | os.O_TRUNC, 0o600)
    rec = exec_image(core.unb64(image_b64), name, fast_load, get_code, count_steps, tag="s", kind=kind, call=call)
    return rec


def _replay_traced(r):
    """a recorded CPU-time or wall-time violation is judged untraced anyway: skip the traced attempt"""
    sg = r.get("signature") or {}
    return not (sg.get("class") == "stall" or (sg.get("class") == "not_prompt" and sg.get("by") == "cpu"))


MINIMISE_WALL_S = 90      # per violation class; bounds only how far a witness is shrunk
TRACED_CPU_EXTRA_S = 30   # room for the line tracer itself: a traced run is judged by its step count only


def run_single_image(image, name, fast_load, get_code, force_steps, wall=90.0, kind="file", tag="", call=None):
    """One image in its own fork of the zygote.  A signal or a stall is an outcome.

    The CPU and wall budgets are budgets of the load, not of the harness: the line tracer behind the step
    clock makes pure-Python loops five to ten times slower, so a traced run that runs out of CPU or wall
    time is re-run untraced and only the untraced run can yield a `cpu` or `stall` verdict (a traced run
    decides by its deterministic step count)."""
    traced = bool(force_steps) and sys.version_info >= (3, 9)
    if traced:
        rec = _run_single_image(image, name, fast_load, get_code, True, wall + TRACED_CPU_EXTRA_S, kind, tag, call,
                                CPU_BUDGET_S + TRACED_CPU_EXTRA_S)
        if rec.get("outcome") not in ("cpu_budget", "stall"):
            return rec
        _probe_global("traced run out of CPU or wall time: verdict taken from an untraced re-run")
    return _run_single_image(image, name, fast_load, get_code, False, wall, kind, tag, call, CPU_BUDGET_S)


def _probe_global(what):
    W.setdefault("late_probes", {})
    W["late_probes"][what] = W["late_probes"].get(what, 0) + 1


def _run_single_image(image, name, fast_load, get_code, force_steps, wall, kind, tag, call, cpu_limit):
    flog = os.path.join(W["rundir"], "fault-%d%s.log" % (os.getpid(), tag))
    marker = os.path.join(W["rundir"], "marker-%d%s" % (os.getpid(), tag))
    r = core.fork_call(_single_child, (core.b64(image), name, fast_load, get_code, force_steps, marker, kind, call),
                       timeout=wall, faultlog_path=flog, quiet=True, cpu_limit=cpu_limit)
    entered = False
    try:
        with open(marker, "rb") as f:
            entered = f.read(1) == b"F"
    except OSError:
        pass
    for pth in (flog, marker):
        try:
            os.unlink(pth)
        except OSError:
            pass
    if r.status == "ok":
        return r.value
    if sys.version_info < (3, 9) and predicts_fast_path(image, get_code):
        entered = True  # 3.8 has no marshal.loads audit event: the magic decides
    if r.status == "signal" and int(r.signal) == int(signal.SIGXCPU):
        fp = entered or _faultlog_in_fast_path(r.faultlog)
        return {"outcome": "cpu_budget", "site": _fault_site(r.faultlog), "steps": None, "fast_path": fp, "exc": None,
                "violation": {"class": "not_prompt", "by": "cpu", "cpu_s": CPU_BUDGET_S, "fast_path": bool(fp),
                              "site": _fault_site(r.faultlog)}}
    if r.status == "signal":
        fp = entered or _faultlog_in_fast_path(r.faultlog)
        return {"outcome": "crash", "site": _fault_site(r.faultlog), "steps": None, "fast_path": fp, "exc": None,
                "violation": {"class": "crash", "signal": int(r.signal), "fast_path": bool(fp),
                              "site": _fault_site(r.faultlog)}}
    if r.status == "timeout":
        if not any(audit.in_xdis(fn) for fn, _, _ in _fault_frames(r.faultlog)):
            # the child hangs, but not in (or below) the code under test: the simulator's own doing
            raise core.HarnessError("single-run child stalled outside xdis: %s" % (r.faultlog or "")[-400:])
        return {"outcome": "stall", "site": _fault_site(r.faultlog), "steps": None, "fast_path": False, "exc": None,
                "violation": {"class": "stall", "wall_s": wall, "site": _fault_site(r.faultlog)}}
    raise core.HarnessError("single-run child failed: %s" % (r.value,))


def _fault_frames(text):
    frames = []
    for line in (text or "").splitlines():
        line = line.strip()
        if line.startswith('File "') and " in " in line:
            try:
                fn = line.split('"')[1]
                lineno = int(line.split(", line ")[1].split(" ")[0])
                func = line.rsplit(" in ", 1)[1]
                frames.append((fn, lineno, func))
            except Exception:
                pass
    return frames


def _fault_site(text):
    for fn, lineno, func in _fault_frames(text):
        if audit.in_xdis(fn):
            rel = fn.split("/xdis/", 1)[-1]
            return "%s:%s" % (rel, func)
    fr = _fault_frames(text)
    return "%s:%s" % (os.path.basename(fr[0][0]), fr[0][2]) if fr else "<unknown>"


def _fault_line(text):
    """source text of the innermost Python frame of a faulthandler dump"""
    fr = _fault_frames(text)
    if not fr:
        return ""
    fn, lineno, _ = fr[0]
    try:
        import linecache

        return linecache.getline(fn, lineno)
    except Exception:
        return ""


def _faultlog_in_fast_path(text):
    # innermost frame is xdis/load.py and its source line calls the built-in marshal
    fr = _fault_frames(text)
    if not fr:
        return False
    fn, lineno, func = fr[0]
    return audit.in_xdis(fn) and fn.endswith("load.py") and "marshal.load" in _fault_line(text)


# ------------------------------------------------------------------------ shard runner


def run_shard(shard):
    """shard = (lo, hi) run indices.  Returns an aggregate; violations are re-confirmed
    in isolation so that a batch can never invent or hide one."""
    lo, hi = shard
    agg = new_agg()
    t0 = time.time()
    pending = list(range(lo, hi))
    slow_seen = SLOW["seen"]  # after two confirmed slow runs everything else in this worker runs under the step clock
    has_clock = sys.version_info >= (3, 9)
    while pending:
        # faulted host-magic images go alone: only C marshal can corrupt the process
        batch = []
        singles = []
        # one shard in eight is a long-lived loader process (120 loads) under the small descriptor table
        bsize = LONG_BATCH if (lo // SHARD) % 8 == 3 else BATCH
        while pending and len(batch) < bsize:
            i = pending.pop(0)
            p = plan_run(i)
            if predicts_fast_path(p.image, p.get_code) and not p.control:
                singles.append(p)
            else:
                batch.append(i)
        for p in singles:
            rec = run_single_image(p.image, p.name, p.fast_load, p.get_code, p.count_steps, kind=p.kind, call=p.call)
            account(agg, _compact(p, rec), p)
        if not batch:
            continue
        got = []
        r = core.fork_call(_batch_child, (batch, slow_seen >= 2), timeout=30.0 + 3.0 * len(batch), stream=True,
                           on_record=got.append, cpu_limit=CPU_BUDGET_S + 8)
        for c in got:
            if c.get("o") == "wall_guard":
                # not a verdict: the deterministic step clock decides, in isolation
                p = plan_run(c["i"])
                if not has_clock and slow_seen >= 3:
                    # a node without step clock has already reported this class three times: do not spend
                    # another 25 s of wall on each further instance
                    _probe(agg, "probable stall not re-confirmed (no step clock on this host)")
                    c["o"] = "unconfirmed_slow"
                    account(agg, c, None)
                    continue
                rec = run_single_image(p.image, p.name, p.fast_load, p.get_code, True, wall=25.0, kind=p.kind, call=p.call)
                c2 = _compact(p, rec)
                if c2.get("v") is not None:
                    slow_seen += 1
                else:
                    agg["probes"]["wall guard tripped but run is within its step budget"] = \
                        agg["probes"].get("wall guard tripped but run is within its step budget", 0) + 1
                account(agg, c2, p)
                continue
            if c.get("v") is not None:
                if c["v"].get("class") in ("not_prompt", "stall"):
                    slow_seen += 1
                # re-confirm in isolation (fresh fork); the isolated verdict is the verdict
                p = plan_run(c["i"])
                rec = run_single_image(p.image, p.name, p.fast_load, p.get_code, True, kind=p.kind, call=p.call)
                c2 = _compact(p, rec)
                if c2.get("v") is None:
                    c2 = _sequence_verdict(agg, batch, c["i"], c2, {"batch_violation": c["v"]})
                account(agg, c2, p)
            else:
                account(agg, c, None)
        if r.status != "ok":
            done = set(c["i"] for c in got)
            rest = [i for i in batch if i not in done]
            if not rest:
                if r.status == "error":
                    raise core.HarnessError("batch child failed: %s" % (r.value,))
                continue
            if r.status == "error":
                raise core.HarnessError("batch child failed: %s" % (r.value,))
            culprit = rest[0]
            p = plan_run(culprit)
            rec = run_single_image(p.image, p.name, p.fast_load, p.get_code, True, kind=p.kind, call=p.call)
            c2 = _compact(p, rec)
            if c2.get("v") is None and r.status == "signal" and int(r.signal or 0) == int(signal.SIGXCPU):
                # the 4 s per-run CPU guard of the batch ended it, but alone the run stays within the full budget:
                # the guard only steers cost, this is neither a violation nor an anomaly
                _probe(agg, "batch CPU guard tripped but run is within its CPU budget")
            elif c2.get("v") is None:
                c2 = _sequence_verdict(agg, batch, culprit, c2, {"batch_status": r.status})
            account(agg, c2, p)
            pending = rest[1:] + pending
    agg["wall"] = time.time() - t0
    SLOW["seen"] = slow_seen
    for k, n in W.pop("late_probes", {}).items():
        _probe(agg, k, n)
    return agg


def _sequence_verdict(agg, batch, culprit, c2, why):
    """A run misbehaved inside its batch but is clean alone: the loads that preceded it in the same process
    matter.  Re-execute that prefix in a fresh fork; if the last load misbehaves again this is a genuine
    multi-step violation (state leaked between calls), otherwise a harness anomaly."""
    SEQ["n"] += 1
    if SEQ["n"] > 4:
        # enough sequences re-executed by this worker: further batch-only failures are counted, not re-run
        _probe(agg, "batch-only failure not re-executed as a sequence (per-worker cap)")
        return c2
    prefix = batch[:batch.index(culprit) + 1] if culprit in batch else [culprit]
    items = [_item_of(plan_run(i)) for i in prefix]
    v = run_sequence(items)
    if v is None:
        d = {"i": culprit, "isolated": "clean", "sequence": "clean"}
        d.update(why)
        agg["anomalies"].append(d)
        return c2
    v = dict(v)
    v["in_sequence"] = True
    v["sequence"] = prefix
    c2 = dict(c2)
    c2["v"] = v
    c2["o"] = "sequence:" + v["class"]
    return c2


def new_agg():
    return {"runs": 0, "changed": 0, "controls": 0, "controls_ok": 0, "outcomes": {}, "fault_kinds": {},
            "triples": {}, "violations": [], "steps_total": 0, "steps_runs": 0, "steps_max_ratio": 0.0,
            "fast_path_runs": 0, "fast_path_faulted": 0, "raise_sites": {}, "probes": {}, "anomalies": [],
            "samples": [], "stdout_runs": 0, "wall": 0.0, "bytes": 0, "digest_full": 0, "digest_verdict": 0}


def _probe(agg, name, n=1):
    agg["probes"][name] = agg["probes"].get(name, 0) + n


def account(agg, c, plan):
    agg["runs"] += 1
    vcls = sig_key(signature(c["v"])) if c["v"] else "-"
    agg["digest_full"] ^= int(core.sha256_hex(repr((c["i"], c["h"], c["o"], c.get("s"), vcls, c.get("st"))).encode())[:16], 16)
    agg["digest_verdict"] ^= int(core.sha256_hex(repr((c["i"], c["h"], c["o"], vcls)).encode())[:16], 16)
    if os.environ.get("XDIS_VERIF_DUMP_VERDICTS"):
        with open(os.environ["XDIS_VERIF_DUMP_VERDICTS"], "a") as _f:
            _f.write("%r\n" % ((c["i"], c["h"], c["o"], vcls),))
    agg["bytes"] += c["n"]
    o = c["o"]
    agg["outcomes"][o] = agg["outcomes"].get(o, 0) + 1
    for k in c["k"]:
        agg["fault_kinds"][k] = agg["fault_kinds"].get(k, 0) + 1
    if c["ctl"]:
        agg["controls"] += 1
        if (o == "return" or (o == "ImportError" and c["fl"])) and c["v"] is None:
            # fast_load=True legitimately rejects versions xdis.marsh cannot read
            agg["controls_ok"] += 1
    elif c["k"]:
        agg["changed"] += 1
        vcls = c["v"]["class"] if c["v"] else "-"
        t = "%s|%s|%s|%s" % ("+".join(c["k"]), o, c.get("s") or "-", vcls)
        agg["triples"][t] = agg["triples"].get(t, 0) + 1
    if c.get("s") and o == "ImportError":
        agg["raise_sites"][c["s"]] = agg["raise_sites"].get(c["s"], 0) + 1
    if c.get("st") is not None:
        agg["steps_total"] += c["st"]
        agg["steps_runs"] += 1
        ratio = c["st"] / float(max(1, c["n"]))
        if ratio > agg["steps_max_ratio"]:
            agg["steps_max_ratio"] = ratio
    if c.get("fp"):
        agg["fast_path_runs"] += 1
        if not c["ctl"]:
            agg["fast_path_faulted"] += 1
            _probe(agg, "fast path entered with faulted bytes")
    if c.get("so"):
        agg["stdout_runs"] += 1
    if c["fl"]:
        _probe(agg, "fast_load=True")
    if not c["gc"]:
        _probe(agg, "get_code=False")
    if o == "return" and not c["ctl"] and c["k"]:
        _probe(agg, "faulted image still loads")
    if c["n"] < 50:
        _probe(agg, "image shorter than 50 bytes")
    if c.get("sk", "file") != "file":
        _probe(agg, "path names a %s, not a regular file" % c["sk"])
    if c["v"] is not None:
        if len(agg["violations"]) < 200:
            agg["violations"].append({"i": c["i"], "v": c["v"], "k": c["k"], "n": c["n"], "o": o})
    if len(agg["samples"]) < 3 and c["k"] and not c["ctl"] and plan is None:
        agg["samples"].append({"run": c["i"], "fault_kinds": c["k"], "outcome": o, "site": c.get("s"), "len": c["n"]})


def merge(aggs):
    tot = new_agg()
    for a in aggs:
        for k in ("runs", "changed", "controls", "controls_ok", "steps_total", "steps_runs", "fast_path_runs",
                  "fast_path_faulted", "stdout_runs", "bytes"):
            tot[k] += a[k]
        tot["digest_full"] ^= a["digest_full"]
        tot["digest_verdict"] ^= a["digest_verdict"]
        tot["wall"] = max(tot["wall"], a["wall"])
        tot["steps_max_ratio"] = max(tot["steps_max_ratio"], a["steps_max_ratio"])
        for dk in ("outcomes", "fault_kinds", "triples", "raise_sites", "probes"):
            for k, v in a[dk].items():
                tot[dk][k] = tot[dk].get(k, 0) + v
        tot["violations"].extend(a["violations"])
        tot["anomalies"].extend(a["anomalies"])
        if len(tot["samples"]) < 6:
            tot["samples"].extend(a["samples"][:1])
    tot["violations"].sort(key=lambda x: x["i"])
    return tot


# -------------------------------------------------------------- violation signatures


def signature(v):
    """class of a violation that must persist through minimisation / matches findings"""
    c = v["class"]
    if c == "exception":
        return {"class": c, "exc": v["exc"], "site": v["site"]}
    if v.get("in_sequence"):
        return {"class": c, "in_sequence": True}
    if c in ("crash", "memory"):
        # control = the stored file was valid: a valid file that kills the interpreter is never the known finding
        sig = {"class": c, "fast_path": bool(v.get("fast_path")), "control": bool(v.get("control"))}
        if c == "crash" and not v.get("fast_path"):
            sig["site"] = v.get("site")
        return sig
    if c == "not_prompt" and v.get("by") == "cpu":
        sig = {"class": c, "by": "cpu", "fast_path": bool(v.get("fast_path")), "control": bool(v.get("control"))}
        if not v.get("fast_path"):
            sig["site"] = v.get("site")
        return sig
    if c in ("not_prompt", "stall"):
        return {"class": c}
    if c in ("fs_write", "compile", "exec", "import", "side_effect"):
        return {"class": c}
    return {"class": c}


def sig_key(sig):
    return "|".join("%s=%s" % (k, sig[k]) for k in sorted(sig))


def matches_finding(sig, finding):
    m = finding.get("match", {})
    return all(sig.get(k) == val for k, val in m.items())


# ------------------------------------------------------------------ systematic sweeps
# Thorough tier: enumeration of crash points (every prefix) and of single-byte
# substitutions of valid files, the two families the property text singles out.

SWEEP_SUBST = ("x80", "x01", "zero", "ff", "inc", "type_r", "type_paren", "type_l")


def _subst(b, how):
    if how == "x80":
        return b ^ 0x80
    if how == "x01":
        return b ^ 0x01
    if how == "zero":
        return 0
    if how == "ff":
        return 0xFF
    if how == "inc":
        return (b + 1) & 0xFF
    if how == "type_r":
        return ord("r")
    if how == "type_paren":
        return ord("(")
    return ord("l")


def _sweep_child(emit, bi, kind, lo, hi, fast_load):
    base = W["bases"][bi]
    data = base.data
    n = 0
    for pos in range(lo, hi):
        if kind == "prefix":
            imgs = [(data[:pos], "cut=%d" % pos)]
        else:
            imgs = []
            for how in SWEEP_SUBST:
                nb = _subst(data[pos], how)
                if nb != data[pos]:
                    imgs.append((data[:pos] + bytes([nb]) + data[pos + 1:], "%d:%s" % (pos, how)))
        for img, what in imgs:
            rec = exec_image(img, base.name, fast_load, True, False)
            n += 1
            if rec["violation"] is not None or rec["outcome"] not in ("return", "ImportError"):
                emit({"bi": bi, "what": what, "kind": kind, "v": rec["violation"], "o": rec["outcome"],
                      "img": core.b64(img)})
            emit({"tick": 1, "o": rec["outcome"], "site": rec.get("site")})
    return n


def run_sweep_shard(task):
    """task = (base index, kind, lo, hi).  Host-magic bases are swept position by position
    in singleton forks (C marshal may crash); all others in one fork per task."""
    bi, kind, lo, hi = task
    base = W["bases"][bi]
    agg = {"evals": 0, "outcomes": {}, "violations": [], "sites": {}, "wall": 0.0}
    t0 = time.time()
    hostmagic = base.magic_int == W["host_magic"]
    if hostmagic:
        for pos in range(lo, hi):
            if kind == "prefix":
                imgs = [(base.data[:pos], "cut=%d" % pos)]
            else:
                imgs = []
                for how in SWEEP_SUBST:
                    nb = _subst(base.data[pos], how)
                    if nb != base.data[pos]:
                        imgs.append((base.data[:pos] + bytes([nb]) + base.data[pos + 1:], "%d:%s" % (pos, how)))
            for img, what in imgs:
                rec = run_single_image(img, base.name, False, True, False)
                agg["evals"] += 1
                agg["outcomes"][rec["outcome"]] = agg["outcomes"].get(rec["outcome"], 0) + 1
                if rec["violation"] is not None:
                    agg["violations"].append({"bi": bi, "what": what, "kind": kind, "v": rec["violation"],
                                              "img": core.b64(img)})
        agg["wall"] = time.time() - t0
        return agg
    got = []
    r = core.fork_call(_sweep_child, (bi, kind, lo, hi, False), timeout=120.0 + 0.2 * (hi - lo) * 8, stream=True,
                       on_record=got.append)
    for c in got:
        if "tick" in c:
            agg["evals"] += 1
            agg["outcomes"][c["o"]] = agg["outcomes"].get(c["o"], 0) + 1
            if c.get("site") and c["o"] == "ImportError":
                agg["sites"][c["site"]] = agg["sites"].get(c["site"], 0) + 1
        else:
            img = core.unb64(c["img"])
            rec = run_single_image(img, base.name, False, True, True)
            if rec["violation"] is not None:
                agg["violations"].append({"bi": bi, "what": c["what"], "kind": kind, "v": rec["violation"],
                                          "img": c["img"]})
    if r.status != "ok":
        if r.status == "error":
            raise core.HarnessError("sweep child failed: %s" % (r.value,))
        # crash or stall of a non-host-magic sweep: find the position by singletons
        agg2 = None
        for pos in range(lo, hi):
            sub = run_sweep_positions_single(bi, kind, pos)
            agg["evals"] += sub["evals"]
            agg["violations"].extend(sub["violations"])
        del agg2
    agg["wall"] = time.time() - t0
    return agg


def run_sweep_positions_single(bi, kind, pos):
    base = W["bases"][bi]
    out = {"evals": 0, "violations": []}
    if kind == "prefix":
        imgs = [(base.data[:pos], "cut=%d" % pos)]
    else:
        imgs = []
        for how in SWEEP_SUBST:
            nb = _subst(base.data[pos], how)
            if nb != base.data[pos]:
                imgs.append((base.data[:pos] + bytes([nb]) + base.data[pos + 1:], "%d:%s" % (pos, how)))
    for img, what in imgs:
        rec = run_single_image(img, base.name, False, True, True)
        out["evals"] += 1
        if rec["violation"] is not None:
            out["violations"].append({"bi": bi, "what": what, "kind": kind, "v": rec["violation"],
                                      "img": core.b64(img)})
    return out


# ---------------------------------------------------------------------------- driver

TIERS = {
    # runs: seeded composed-fault runs; produce: (n_xdis, n_stdlib) per producer
    "quick": {"runs": 40000, "other_host_runs": 2000, "produce": (3, 3), "sweep_prefix_files": 0,
              "sweep_bytes_files": 0, "wall_cap": 100},
    "thorough": {"runs": 600000, "other_host_runs": 60000, "produce": (30, 40), "sweep_prefix_files": -1,
                 "sweep_bytes_files": -1, "wall_cap": 900, "sweep_wall_cap": 3300},
}


def _replay_path(master, tag):
    os.makedirs(core.REPLAY_DIR, exist_ok=True)
    return os.path.join(core.REPLAY_DIR, "C11-%d-py%d%d-%s.json" % (master, sys.version_info[0], sys.version_info[1], tag))


def _pred_for(sig, name, fast_load, get_code, kind="file", call=None):
    want = sig_key(sig)

    # only the step-count class needs the line tracer; every other class shows (faster) without it
    traced = sig.get("class") == "not_prompt" and sig.get("by") != "cpu"

    def pred(img):
        rec = run_single_image(img, name, fast_load, get_code, traced, kind=kind, call=call)
        v = rec.get("violation")
        return v is not None and sig_key(signature(v)) == want

    return pred


def _report_sequence(master, k, sig, x, group, out_lines, evidence_v):
    from sim import minimise

    items = x["sequence"]
    want = k

    def fails(prefix_items):
        seq = list(prefix_items) + [items[-1]]
        v = run_sequence(seq)
        return v is not None and sig_key(signature(dict(v, in_sequence=True))) == want

    budget = minimise.Budget(60, MINIMISE_WALL_S)
    keep = items[:-1]
    info = {"strategy": ["not minimised"], "tests": 0}
    if fails(keep):
        keep = minimise.ddmin_list(keep, fails, budget)
        info = {"strategy": ["ddmin over the loads preceding the failing one: %d -> %d" % (len(items) - 1, len(keep))],
                "tests": budget.tests}
    seq = list(keep) + [items[-1]]
    tag = "%s-%d" % (core.sha256_hex(k.encode())[:8], len(evidence_v["replays"]))
    path = _replay_path(master, tag)
    core.write_json_atomic(path, {
        "property": PROP, "master_seed": master, "origin": x.get("origin"), "signature": sig, "violation": x["v"],
        "sequence": seq, "minimisation": info, "instances_in_run": len(group),
        "host": "%d.%d.%d" % sys.version_info[:3]})
    evidence_v["replays"].append(path)
    out_lines.append("VIOLATION property=%s replay=%s" % (PROP, path))
    core.log("  class %s: %s (sequence of %d loads in one process, %d instance(s))" % (k, x["v"], len(seq), len(group)))
    return 1


def replay_witnesses(findings):
    """Re-execute the stored failing input of every known finding (same host only), one after the other.
    Returns {finding id: True/False}."""
    import glob
    import json

    host = "%d.%d.%d" % sys.version_info[:3]
    out = {}
    k = 0
    for f in findings:
        if f.get("property") != PROP or f.get("status") != "known":
            continue
        fid = f.get("id")
        for path in sorted(glob.glob(os.path.join(core.VERIF_DIR, "findings", "%s-*.json" % fid))):
            with open(path) as fh:
                r = json.load(fh)
            if r.get("host") != host:
                continue
            rec = run_single_image(core.unb64(r["image_b64"]), r["name"], r["fast_load"], r["get_code"],
                                   _replay_traced(r), kind=r.get("storage_object", "file"), tag="w%d" % k,
                                   call=r.get("call"))
            k += 1
            v = rec.get("violation")
            ok = v is not None and matches_finding(signature(v), f)
            out[fid] = out.get(fid, False) or ok
    return out


class WitnessRunner:
    """Replays the stored witnesses in the background while the seeded search runs: in a forked helper PROCESS,
    not in a thread.  This process forks pool workers and single-run children all the time; a fork taken while
    another thread is in the middle of an import leaves that module's import lock held for ever in the child, and
    a grandchild that needs the module (load.py imports traceback lazily) then hangs - which looked like a stalled
    load once (DESIGN A.3).  So no thread may exist here while forks are taken."""

    def __init__(self, findings):
        import json

        self.path = os.path.join(W["rundir"], "witnesses-%d.json" % os.getpid())
        sys.stdout.flush()
        sys.stderr.flush()
        self.pid = os.fork()
        if self.pid == 0:
            code = 0
            try:
                try:
                    res = replay_witnesses(findings)
                except BaseException as e:  # reported by the caller
                    res = {"__error__": repr(e)}
                with open(self.path + ".tmp", "w") as f:
                    json.dump(res, f)
                os.rename(self.path + ".tmp", self.path)
            except BaseException:
                code = 3
            finally:
                os._exit(code)

    def wait(self):
        import json

        _, status = os.waitpid(self.pid, 0)
        try:
            with open(self.path) as f:
                result = json.load(f)
        except (OSError, ValueError):
            raise core.HarnessError("witness replay helper died (wait status %d)" % status)
        if "__error__" in result:
            raise core.HarnessError("witness replay failed: %s" % result["__error__"])
        return result


def report_violations(master, viols, findings, out_lines, evidence_v):
    """viols: list of dicts with keys v, image, name, fast_load, get_code, base(bytes|None), origin(dict)."""
    from sim import minimise

    by_sig = {}
    for x in viols:
        k = sig_key(signature(x["v"]))
        by_sig.setdefault(k, []).append(x)
    n_unknown = 0
    for k in sorted(by_sig):
        group = by_sig[k]
        sig = signature(group[0]["v"])
        known = None
        for f in findings:
            if f.get("property") == PROP and f.get("status") == "known" and matches_finding(sig, f):
                known = f
                break
        if known is not None:
            evidence_v["known"][known.get("id", k)] = evidence_v["known"].get(known.get("id", k), 0) + len(group)
            continue
        n_unknown += 1
        x = min(group, key=lambda g: len(g["image"]))
        if x.get("sequence"):
            _report_sequence(master, k, sig, x, group, out_lines, evidence_v)
            continue
        pred = _pred_for(sig, x["name"], x["fast_load"], x["get_code"], x.get("kind", "file"), x.get("call"))
        img = x["image"]
        info = {"strategy": ["not minimised"], "tests": 0}
        if sig["class"] == "stall" or (sig["class"] == "not_prompt" and sig.get("by") == "cpu"):
            info = {"strategy": ["not minimised: every test of this class costs its full time budget"], "tests": 0}
        elif pred(img):
            try:
                img, info = minimise.minimise_image(x.get("base"), x["image"], pred, wall_s=MINIMISE_WALL_S)
            except Exception as e:
                info = {"strategy": ["minimiser failed: %r" % (e,)], "tests": 0}
                img = x["image"]
        tag = "%s-%d" % (core.sha256_hex(k.encode())[:8], len(evidence_v["replays"]))
        path = _replay_path(master, tag)
        core.write_json_atomic(path, {
            "property": PROP, "master_seed": master, "origin": x.get("origin"), "signature": sig,
            "violation": x["v"], "name": x["name"], "fast_load": x["fast_load"], "get_code": x["get_code"],
            "storage_object": x.get("kind", "file"), "call": x.get("call"),
            "image_b64": core.b64(img), "image_len": len(img), "original_image_b64": core.b64(x["image"]),
            "minimisation": info, "instances_in_run": len(group),
            "host": "%d.%d.%d" % sys.version_info[:3],
        })
        evidence_v["replays"].append(path)
        out_lines.append("VIOLATION property=%s replay=%s" % (PROP, path))
        core.log("  class %s: %s (minimised to %d bytes, %d instance(s))" % (k, x["v"], len(img), len(group)))
    return n_unknown


def replay(path):
    import json

    with open(path) as f:
        r = json.load(f)
    me = "%d.%d.%d" % sys.version_info[:3]
    if r.get("host") and r["host"] != me and os.environ.get("XDIS_VERIF_REPLAY_SUB") != "1":
        for tag, exe in core.host_pythons():
            if tag == r["host"]:
                import subprocess

                p = subprocess.run([exe, "-B", "-s", os.path.join(core.VERIF_DIR, "sim", "main.py"), "C11",
                                    "--replay", path], env=core.child_env({"XDIS_VERIF_REPLAY_SUB": "1"}))
                return p.returncode
    W["rundir"] = os.path.join(core.scratch_dir(), "c11")
    os.makedirs(W["rundir"], exist_ok=True)
    core.verify_xdis_origin()
    audit.install()
    rr = core.fork_call(_magic_table_child, timeout=60)
    W["host_magic"] = rr.value["host"] if rr.status == "ok" else None
    if r.get("sequence"):
        v = run_sequence(r["sequence"])
        if v is not None:
            v = dict(v, in_sequence=True)
        rec = {"outcome": "sequence:" + (v["class"] if v else "clean")}
    else:
        img = core.unb64(r["image_b64"])
        rec = run_single_image(img, r["name"], r["fast_load"], r["get_code"], _replay_traced(r),
                               kind=r.get("storage_object", "file"), call=r.get("call"))
        v = rec.get("violation")
    want = sig_key(r["signature"])
    if v is not None and sig_key(signature(v)) == want:
        print("reproduced: %s" % (v,))
        print("VIOLATION property=%s replay=%s" % (PROP, path))
        return core.EXIT_VIOLATION
    if v is not None:
        print("different violation on replay: %s" % (v,))
        print("VIOLATION property=%s replay=%s" % (PROP, path))
        return core.EXIT_VIOLATION
    print("not reproduced: outcome=%s" % rec.get("outcome"))
    return core.EXIT_OK


def seeded_phase(nruns, workers, wall_cap, t0):
    shards = [(lo, min(nruns, lo + SHARD)) for lo in range(0, nruns, SHARD)]
    if workers <= 1:
        return merge([run_shard(sh) for sh in shards])
    import multiprocessing
    from concurrent.futures import ProcessPoolExecutor, as_completed

    aggs = []
    ctx = multiprocessing.get_context("fork")
    with ProcessPoolExecutor(max_workers=workers, mp_context=ctx) as ex:
        futs = [ex.submit(run_shard, sh) for sh in shards]
        capped = False
        for fut in as_completed(futs):
            try:
                aggs.append(fut.result())
            except Exception as e:
                if capped and fut.cancelled():
                    continue
                raise core.HarnessError("shard worker failed: %r" % (e,))
            if not capped and time.time() - t0 > wall_cap:
                capped = True
                n_cancel = sum(1 for f in futs if f.cancel())
                core.log("[C11] wall cap reached: %d shards not started" % n_cancel)
    aggs = [a for a in aggs if a is not None]
    return merge(aggs)


def collect_violations(tot, sweep):
    viols = []
    seen_classes = {}
    for x in tot["violations"]:
        k = sig_key(signature(x["v"]))
        if seen_classes.get(k, 0) >= 6:
            continue
        seen_classes[k] = seen_classes.get(k, 0) + 1
        p = plan_run(x["i"])
        base = W["bases"][p.base_index].data if p.base_index >= 0 else None
        viols.append({"v": x["v"], "image": p.image, "name": p.name, "fast_load": p.fast_load,
                      "get_code": p.get_code, "base": base, "kind": p.kind, "call": p.call,
                      "sequence": [_item_of(plan_run(i)) for i in x["v"]["sequence"]] if x["v"].get("sequence") else None,
                      "origin": {"run_index": x["i"], "run_seed": p.seed, "base": p.base_desc, "faults": p.faults}})
    for x in sweep["violations"]:
        k = sig_key(signature(x["v"]))
        if seen_classes.get(k, 0) >= 6:
            continue
        seen_classes[k] = seen_classes.get(k, 0) + 1
        b = W["bases"][x["bi"]]
        viols.append({"v": x["v"], "image": core.unb64(x["img"]), "name": b.name, "fast_load": False,
                      "get_code": True, "base": b.data,
                      "origin": {"sweep": x["kind"], "what": x["what"], "base": b.describe()}})
    return viols


def host_summary(tot, t_runs):
    return {"runs": tot["runs"], "changed": tot["changed"], "controls": tot["controls"],
            "controls_ok": tot["controls_ok"], "outcomes": tot["outcomes"], "fault_kinds": tot["fault_kinds"],
            "fast_path_runs": tot["fast_path_runs"], "fast_path_faulted": tot["fast_path_faulted"],
            "steps_total": tot["steps_total"], "steps_runs": tot["steps_runs"],
            "steps_max_ratio": round(tot["steps_max_ratio"], 2), "triples": len(tot["triples"]),
            "anomalies": tot["anomalies"][:5], "wall": round(t_runs, 2)}


def sub_main(opts):
    """one non-primary host: seeded runs on the coordinator's corpus; result JSON to opts['sub']"""
    import json

    t0 = time.time()
    master = opts["seed"]
    workers = opts.get("workers") or core.default_workers()
    prepare(master, opts["tier"], corpus.load_produced())
    wr = WitnessRunner(core.load_known_findings())
    tot = seeded_phase(int(opts["runs"]), workers, 3000, t0)
    t_runs = time.time() - t0
    findings = core.load_known_findings()
    lines = []
    ev_v = {"known": {}, "replays": []}
    sweep0 = {"violations": []}
    n_unknown = report_violations(master, collect_violations(tot, sweep0), findings, lines, ev_v)
    witnessed = wr.wait()
    out = {"host": "%d.%d.%d%s" % (sys.version_info[:3] + ("-O" if sys.flags.optimize else "",)),
           "summary": host_summary(tot, t_runs), "lines": lines,
           "n_unknown": n_unknown, "known": ev_v["known"], "replays": ev_v["replays"], "witnessed": witnessed,
           "triples": sorted(tot["triples"]), "digest_verdict": "%016x" % tot["digest_verdict"]}
    with open(opts["sub"], "w") as f:
        json.dump(out, f)
    return core.EXIT_OK


def run_other_hosts(master, tier, nruns, workers):
    import json
    import subprocess

    me = "%d.%d.%d" % sys.version_info[:3]
    outs = []
    # every other interpreter, plus this interpreter once more with assertions stripped (python -O): the
    # field-type validation of the portable code types is written with assert
    configs = [(tag, exe, []) for tag, exe in core.host_pythons() if tag != me]
    configs.append((me + "-O", sys.executable, ["-O"]))
    import threading

    errs = []
    each = max(2, workers // 3)

    def one(tag, exe, flags):
        outp = os.path.join(W["rundir"], "sub-%s.json" % tag)
        ts = time.time()
        try:
            p = subprocess.run([exe] + flags + ["-B", "-s", os.path.join(core.VERIF_DIR, "sim", "main.py"), "C11",
                                "--tier", tier, "--seed", str(master), "--runs", str(nruns), "--workers", str(each),
                                "--sub", outp],
                               env=core.child_env(), stdout=subprocess.PIPE, stderr=subprocess.PIPE, timeout=3600)
            if p.returncode != 0:
                errs.append("C11 on host %s failed (%d): %s" % (tag, p.returncode,
                                                                p.stderr.decode(errors="replace")[-600:]))
                return
            with open(outp) as f:
                outs.append(json.load(f))
            if os.environ.get("XDIS_VERIF_TIMING"):
                sys.stderr.write("[C11 timing] host %s %.1fs\n" % (tag, time.time() - ts))
        except Exception as e:
            errs.append("C11 on host %s: %r" % (tag, e))

    # two configurations at a time: each uses a third of the cores
    sem = threading.Semaphore(3)

    def guarded(*a):
        with sem:
            one(*a)

    ths = [threading.Thread(target=guarded, args=c) for c in configs]
    for t in ths:
        t.start()
    for t in ths:
        t.join()
    if errs:
        raise core.HarnessError("; ".join(errs[:2]))
    outs.sort(key=lambda o: o["host"])
    return outs


def main(opts):
    if opts.get("sub"):
        return sub_main(opts)
    t0 = time.time()
    tier = opts["tier"]
    master = opts["seed"]
    cfg = dict(TIERS[tier])
    if opts.get("runs"):
        cfg["runs"] = int(opts["runs"])
        cfg["other_host_runs"] = max(200, int(opts["runs"]) // 15)
    workers = opts.get("workers") or core.default_workers()
    core.log("[C11] tier=%s seed=%d host=%s workers=%d" % (tier, master, sys.version.split()[0], workers))
    produced = corpus.produce_corpus(master, cfg["produce"][0], cfg["produce"][1])
    prepare(master, tier, produced)
    core.log("[C11] corpus: %d base files (%d produced), host magic %s, prepared in %.1fs" % (
        len(W["bases"]), len(produced), W["host_magic"], time.time() - t0))
    wr = WitnessRunner(core.load_known_findings())
    tot = seeded_phase(cfg["runs"], workers, cfg["wall_cap"], t0)
    t_runs = time.time() - t0
    # ---- the same simulation on every other host interpreter (each has its own fast path)
    others = []
    if cfg.get("other_host_runs") and not opts.get("no_hosts"):
        others = run_other_hosts(master, tier, cfg["other_host_runs"], workers)
    t_hosts = time.time() - t0
    # ---- determinism self-test (small): first shard twice more, different worker layout
    det_ok = True
    if not opts.get("no_selftest"):
        a1 = run_shard((0, 48))
        a2 = merge(core.run_sharded(run_shard, [(0, 16), (16, 32), (32, 48)], 3))
        if _agg_digest(a1) != _agg_digest(a2):
            det_ok = False
    # ---- sweeps
    sweep = {"prefix_evals": 0, "byte_evals": 0, "violations": [], "outcomes": {}, "files_prefix": 0,
             "files_bytes": 0, "exhaustive_prefix": False}
    if cfg["sweep_prefix_files"]:
        cfg2 = dict(cfg)
        cfg2["wall_cap"] = cfg.get("sweep_wall_cap", cfg["wall_cap"])
        sweep = run_sweeps(cfg2, workers, t0)
    # ---- violations
    findings = core.load_known_findings()
    lines = []
    ev_v = {"known": {}, "replays": []}
    n_unknown = report_violations(master, collect_violations(tot, sweep), findings, lines, ev_v)
    t_rep = time.time() - t0
    witnessed = wr.wait()
    if os.environ.get("XDIS_VERIF_TIMING"):
        sys.stderr.write("[C11 timing] runs %.1f hosts %.1f report %.1f witnesses %.1f\n" % (
            t_runs, t_hosts if others else t_runs, t_rep, time.time() - t0))
    for o in others:
        n_unknown += o["n_unknown"]
        lines.extend(o["lines"])
        ev_v["replays"].extend(o["replays"])
        for k, v in o["known"].items():
            ev_v["known"][k] = ev_v["known"].get(k, 0) + v
        for k, v in o["witnessed"].items():
            witnessed[k] = witnessed.get(k, False) or v
    for f in findings:
        if f.get("property") == PROP and f.get("status") == "known":
            fid = f.get("id")
            n_search = ev_v["known"].get(fid, 0)
            if witnessed.get(fid) or n_search:
                lines.append("KNOWN-FINDING: property=%s %s: %s [stored witness %s; %d further instance(s) found by "
                             "this run's search]" % (PROP, fid, f["description"],
                                                     "reproduced" if witnessed.get(fid) else "not replayed on this host",
                                                     n_search))
    all_viol_classes = {}
    for x in tot["violations"] + sweep["violations"]:
        k = sig_key(signature(x["v"]))
        all_viol_classes[k] = all_viol_classes.get(k, 0) + 1
    wall = time.time() - t0
    # ---- evidence
    triples = set(tot["triples"])
    for o in others:
        triples.update("%s@%s" % (t, o["host"]) for t in o["triples"])
    other_runs = sum(o["summary"]["runs"] for o in others)
    coverage = {
        "evaluations": tot["runs"] + other_runs + sweep["prefix_evals"] + sweep["byte_evals"],
        "distinct_nontrivial": len(triples),
        "rule": "one evaluation = one real load_module call on a real file holding a stored image; seeded runs "
                "compose 1-4 storage faults (crash prefix, torn block write, bit rot, lost/duplicated/misdirected "
                "extents, read-map-aimed adversarial fields, header faults, nesting bombs) on a valid base file, or "
                "synthesise a not-bytecode input; distinct_nontrivial counts distinct (set of fault kinds that "
                "changed the image, outcome, innermost xdis raise site, verdict class[, other host]) among runs whose "
                "image differs from its base",
        "samples": tot["samples"][:5] or [{"note": "no faulted sample recorded"}],
        "seeded_runs": tot["runs"],
        "seeded_runs_on_other_hosts": dict((o["host"], o["summary"]) for o in others),
        "runs_image_changed": tot["changed"],
        "control_runs": tot["controls"],
        "control_runs_clean": tot["controls_ok"],
        "seeds_per_hour": int(tot["runs"] / max(1e-6, t_runs) * 3600),
        "simulated_steps": tot["steps_total"],
        "step_clock_runs": tot["steps_runs"],
        "max_steps_per_input_byte": round(tot["steps_max_ratio"], 2),
        "step_budget": "%d + %d * len(file) line events in /repo/xdis frames" % (STEP_BASE, STEP_PER_BYTE),
        "faults_fired": tot["fault_kinds"],
        "outcome_classes": tot["outcomes"],
        "import_error_raise_sites": tot["raise_sites"],
        "reach_probes": tot["probes"],
        "fast_path_runs": tot["fast_path_runs"],
        "fast_path_runs_with_faulted_bytes": tot["fast_path_faulted"],
        "runs_writing_to_stdout": tot["stdout_runs"],
        "bytes_loaded": tot["bytes"],
        "base_files": len(W["bases"]),
        "base_files_produced_at_check_time": len(produced),
        "sweep": dict((k, sweep[k]) for k in sweep if k != "violations"),
        "violation_classes": all_viol_classes,
        "known_findings_matched": ev_v["known"],
        "known_finding_witnesses_reproduced": witnessed,
        "replays": ev_v["replays"],
        "anomalies": tot["anomalies"][:10],
        "determinism_selftest": "ok" if det_ok else "MISMATCH",
        "components_real": ["xdis (every module, from /repo working tree)", "CPython marshal/struct/io of the host",
                            "real files on tmpfs read through open()/BufferedReader"],
        "components_stubbed": ["producer and storage medium (simdisk fault model)", "sys.stdout/sys.stderr (sinks)"],
        "host": sys.version.split()[0],
        "aslr_disabled": os.environ.get("XDIS_VERIF_ASLR_OFF") == "1",
        "exhaustive": False,
    }
    core.write_evidence(PROP, tier, master, coverage, wall, n_unknown, [
        "audit hooks see Python-level events only", "inputs are capped at 64 KiB",
        "a child killed by a signal (or growing by > 256 MiB) after load.py handed the bytes to CPython's "
        "marshal.loads is the known finding D13; any other crash is a violation",
        "RLIMIT_AS = baseline + 1 GiB in every child; resident-set growth above 256 MiB is a violation",
        "on a 3.8 node the step clock is off (CPython 3.8 aborts when a trace function runs at the recursion edge) "
        "and the fast path is recognised by the file's magic (no marshal.loads audit event before 3.9)",
    ])
    for ln in lines:
        print(ln)
    core.log("[C11] %d runs (%d changed, %d controls) + %d on %d other hosts, %d sweep evals, %d distinct classes, "
             "%.1fs; outcomes %s" % (tot["runs"], tot["changed"], tot["controls"], other_runs, len(others),
                                     sweep["prefix_evals"] + sweep["byte_evals"], len(triples), wall, tot["outcomes"]))
    anomalies = list(tot["anomalies"])
    for o in others:
        anomalies.extend(o["summary"]["anomalies"])
    if anomalies:
        core.log("[C11] HARNESS-ERROR: non-reproducible batch outcomes: %s" % anomalies[:3])
        return core.EXIT_HARNESS
    if tot["controls"] and tot["controls_ok"] != tot["controls"]:
        core.log("[C11] note: %d of %d fault-free controls did not return a tuple" % (
            tot["controls"] - tot["controls_ok"], tot["controls"]))
    if not det_ok:
        core.log("[C11] HARNESS-ERROR: determinism self-test mismatch")
        return core.EXIT_HARNESS
    return core.EXIT_VIOLATION if n_unknown else core.EXIT_OK


def _agg_digest(a):
    import json

    # verdicts only: step counts may legitimately depend on what ran earlier in the same batch process
    # (e.g. a correct memo table makes the second call cheaper), and batches differ between layouts
    keys = ("runs", "changed", "outcomes", "fault_kinds", "triples", "raise_sites", "digest_verdict")
    return core.sha256_hex(json.dumps({k: a[k] for k in keys}, sort_keys=True).encode())


def digest_run(master, nruns, workers, shard=40):
    """self-test helper: (full digest, verdict digest) of runs [0, nruns)"""
    shards = [(lo, min(nruns, lo + shard)) for lo in range(0, nruns, shard)]
    tot = merge(core.run_sharded(run_shard, shards, workers))
    return "%016x" % tot["digest_full"], "%016x" % tot["digest_verdict"], tot


def run_sweeps(cfg, workers, t0):
    bases = W["bases"]
    # every repo file, plus the three smallest files of every producer (these bring 3.13 and every host's own magic)
    per_tag = {}
    chosen = []
    for k in sorted(range(len(bases)), key=lambda k: (len(bases[k].data), bases[k].path)):
        b = bases[k]
        if b.origin == "repo":
            chosen.append(k)
        else:
            tag = b.origin.split(":")[1]
            if per_tag.get(tag, 0) < 3 and ".ts." in b.name:
                per_tag[tag] = per_tag.get(tag, 0) + 1
                chosen.append(k)
    order = sorted(chosen, key=lambda k: (len(bases[k].data), bases[k].path))
    out = {"prefix_evals": 0, "byte_evals": 0, "violations": [], "outcomes": {}, "files_prefix": 0, "files_bytes": 0,
           "exhaustive_prefix": False, "sites": {}}
    CH = 4096
    for kind, limit_key in (("prefix", "sweep_prefix_files"), ("bytes", "sweep_bytes_files")):
        lim = cfg[limit_key]
        files = order if lim < 0 else order[:lim]
        tasks = []
        for bi in files:
            n = len(bases[bi].data)
            hi_end = n if kind == "bytes" else n  # prefixes 0..n-1 (n itself is the control)
            step = CH if kind == "prefix" else CH // 4
            if bases[bi].magic_int == W["host_magic"]:
                step = step // 8 or 1
            for lo in range(0, hi_end, step):
                tasks.append((bi, kind, lo, min(hi_end, lo + step)))
        wave = workers * 6
        complete = True
        for w0 in range(0, len(tasks), wave):
            if time.time() - t0 > cfg["wall_cap"]:
                complete = False
                core.log("[C11] wall cap reached inside %s sweep (%d/%d tasks)" % (kind, w0, len(tasks)))
                break
            for a in core.run_sharded(run_sweep_shard, tasks[w0:w0 + wave], workers):
                out["prefix_evals" if kind == "prefix" else "byte_evals"] += a["evals"]
                out["violations"].extend(a["violations"])
                for k, v in a["outcomes"].items():
                    out["outcomes"][k] = out["outcomes"].get(k, 0) + v
                for k, v in a.get("sites", {}).items():
                    out["sites"][k] = out["sites"].get(k, 0) + v
        if kind == "prefix":
            out["files_prefix"] = len(files)
            out["bytes_in_swept_files"] = sum(len(bases[k].data) for k in files)
            out["exhaustive_prefix"] = complete and lim < 0
        else:
            out["files_bytes"] = len(files)
            out["exhaustive_bytes"] = complete and lim < 0
    return out
