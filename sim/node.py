# One replica node of the C07 simulation: runs under one host interpreter, receives the
# same stored files as every other node and decodes them with the real xdis of /repo.
#
#   python node.py <jobs.json> <out.json>
#
# jobs.json: {"jobs": [{"id":..., "path":..., "name":..., "arms": [...], "formats": [...], "deep": bool,
#                       "detail": bool}], "rundir": path}
# Every job runs in a fork of this process (the node's pristine zygote).  Arms:
#   default - load_module as shipped (fast path iff file magic == host magic)
#   skip    - the fast path is skipped (xdis.load.PYTHON_MAGIC_INT := -1), verified through
#             the interpreter's marshal.loads audit event
# Python 3.8 syntax, stdlib only.

import io
import json
import os
import sys

sys.path.insert(0, os.path.dirname(os.path.dirname(os.path.abspath(__file__))))

import xdis  # noqa: E402,F401

from sim import audit, canon, core, corpus  # noqa: E402

HOST = "%d.%d.%d" % sys.version_info[:3]


def _banner_lines():
    """exactly the lines show_module_header derives from sys.version of this node"""
    return ["# Disassembled from Python " + ln if k == 0 else "# " + ln
            for k, ln in enumerate(sys.version.split("\n"))]


def strip_banner(text):
    """remove only what C07 exempts: the banner naming the host.  Returns (text, n_removed)"""
    want = _banner_lines()
    lines = text.split("\n")
    out = []
    removed = 0
    k = 0
    while k < len(lines):
        if lines[k:k + len(want)] == want:
            k += len(want)
            removed += 1
            continue
        out.append(lines[k])
        k += 1
    return "\n".join(out), removed


# ---- known-finding normalisers (see /verif/known_findings.json: D5, D6).  Each rewrites only
# the one difference its finding describes; anything else still differs afterwards.
import re  # noqa: E402

# (the name may contain spaces and angle brackets: "<generic parameters of Alias>")
_NATIVE_CODE = re.compile(r'<code object ([^\n]+?) at 0xADDR\d+, file "([^"\n]*)", line (\d+)>')
_PORTABLE_CODE = re.compile(r'<Code\w+ code object ([^\n]+?) at 0xADDR\d+, file ([^>\n]*)>, line (\d+)')
_SET_LITERAL = re.compile(r'\{([^{}\n]*)\}')


def norm_code_repr(t):
    t = _NATIVE_CODE.sub(lambda m: "<CODE %s %s %s>" % m.groups(), t)
    t = _PORTABLE_CODE.sub(lambda m: "<CODE %s %s %s>" % m.groups(), t)
    seen = {}

    def renum(m):
        a = m.group(0)
        if a not in seen:
            seen[a] = "0xADDR%d" % len(seen)
        return seen[a]

    return re.sub(r"0xADDR\d+", renum, t)


def norm_set_order(t):
    # D6 is about members whose hash differs between hosts: strings (str hashing differs between hosts <= 3.10
    # and >= 3.11) and None / Ellipsis (address-based hashes; None until 3.11).  The order of a set of ints, floats,
    # complex numbers, tuples of those ... is the same on every host, so such sets are left alone
    def sub(m):
        body = m.group(1)
        if "'" not in body and '"' not in body and "None" not in body and "Ellipsis" not in body:
            return m.group(0)
        items = body.split(", ")
        return "{" + ", ".join(sorted(items)) + "}"

    return _SET_LITERAL.sub(sub, t)


def norm_unicode_escape(t):
    # D20: repr() of a str escapes code points the HOST's Unicode database does not know as printable, so a
    # character assigned in Unicode 13-15 is printed literally by a new host and as \Uxxxxxxxx by an old one
    out = []
    for ch in t:
        o = ord(ch)
        if o < 0x80:
            out.append(ch)
        elif o <= 0xFF:
            out.append("\\x%02x" % o)
        elif o <= 0xFFFF:
            out.append("\\u%04x" % o)
        else:
            out.append("\\U%08x" % o)
    return "".join(out)


def text_digests(t):
    """raw digest plus the digest after every combination of known-finding normalisers"""
    names = ["code_repr", "set_order", "unicode_escape"]
    funcs = {"code_repr": norm_code_repr, "set_order": norm_set_order, "unicode_escape": norm_unicode_escape}
    out = {"d": canon.digest(t)}
    for mask in range(1, 1 << len(names)):
        sel = [n for k, n in enumerate(names) if mask & (1 << k)]
        x = t
        for n in sel:
            x = funcs[n](x)
        out["n:" + "+".join(sel)] = canon.digest(x)
    return out


def _walk_codes(co, iscode):
    out = []
    stack = [(co, "co")]
    while stack:
        c, path = stack.pop(0)
        out.append((path, c))
        for k, x in enumerate(c.co_consts):
            if iscode(x):
                stack.append((x, "%s.consts[%d]" % (path, k)))
    return out


def _deep(co, version, is_pypy, detail):
    """instruction stream, labels, line starts, exception entries of every code object"""
    from xdis.bytecode import Bytecode
    from xdis.codetype.base import iscode
    from xdis.disasm import get_opcode

    ver = tuple(version[:2])
    opc = get_opcode(version, is_pypy)
    res = []
    for path, c in _walk_codes(co, iscode):
        entry = {"path": path}
        try:
            bc = Bytecode(c, opc)
            ins = []
            for x in bc:
                ins.append([canon.canon_value(f, ver, False) for f in (x.offset, x.opcode, x.opname, x.arg, x.argval,
                                                                         x.is_jump_target, x.starts_line)])
            entry["instructions"] = ins
            entry["exception_entries"] = canon.canon_value(
                [tuple(e) for e in bc.exception_entries] if bc.exception_entries is not None else None, ver)
        except Exception as e:
            entry["instructions"] = canon.canon_exception(e)[:2]
        try:
            entry["labels"] = canon.canon_value(sorted(opc.findlabels(c.co_code, opc)), ver)
        except Exception as e:
            entry["labels"] = canon.canon_exception(e)[:2]
        try:
            entry["linestarts"] = canon.canon_value([tuple(p) for p in opc.findlinestarts(c)], ver)
        except Exception as e:
            entry["linestarts"] = canon.canon_exception(e)[:2]
        res.append(entry)
    return res


def _one_arm(job, arm):
    import xdis.load as xl
    from xdis.disasm import disassemble_file

    detail = job.get("detail")
    out = {"arm": arm, "host": HOST}
    saved = xl.PYTHON_MAGIC_INT
    old_out, old_err = sys.stdout, sys.stderr
    cap = io.StringIO()
    sys.stdout, sys.stderr = cap, corpus.Sink()
    audit.install()
    try:
        if arm == "skip":
            xl.PYTHON_MAGIC_INT = -1
        audit.arm(None, b"")
        try:
            try:
                r = xl.load_module(job["name"])
            finally:
                audit.disarm()
            version, ts, magic_int, co, is_pypy, size, sip = r
            # the marshal.loads audit event exists from 3.9 on; on 3.8 the native result type tells
            if sys.version_info >= (3, 9):
                out["fast_path"] = bool(audit.STATE.fast_path)
            else:
                out["fast_path"] = type(co).__name__ == "code"
            ver = tuple(version[:2])
            out["header"] = [list(version), ts, magic_int, bool(is_pypy), size, sip]
            tree = canon.canon_value(co, ver, with_types=False)
            out["tree"] = canon.digest(tree)
            out["native"] = type(co).__name__ == "code"
            if detail:
                out["tree_full"] = tree
            if job.get("deep"):
                deep = _deep(co, version, is_pypy, detail)
                out["deep"] = {"instructions": canon.digest([e.get("instructions") for e in deep]),
                               "labels": canon.digest([e.get("labels") for e in deep]),
                               "linestarts": canon.digest([e.get("linestarts") for e in deep]),
                               "exception_entries": canon.digest([e.get("exception_entries") for e in deep])}
                if detail:
                    out["deep_full"] = deep
        except Exception as e:
            out["load_exc"] = type(e).__name__
            if detail:
                out["load_exc_msg"] = str(e)[:300]
        texts = {}
        for fmt in job.get("formats", []):
            buf = io.StringIO()
            try:
                ret = disassemble_file(job["name"], buf, fmt)
                if fmt == "xasm" and isinstance(ret, tuple) and len(ret) == 8:
                    # the code object handed back to the caller must be the decoded one, whatever the lister did
                    rver = tuple(ret[2][:2]) if isinstance(ret[2], tuple) else (0, 0)
                    out["xasm_returned_tree"] = canon.digest(canon.norm_text(json.dumps(
                        canon.canon_value(ret[1], rver, with_types=False), sort_keys=True)))
                t, removed = strip_banner(buf.getvalue())
                t = canon.norm_text(t)
                texts[fmt] = text_digests(t)
                texts[fmt]["banner"] = removed
                if detail:
                    texts[fmt]["full"] = t
            except Exception as e:
                texts[fmt] = {"d": "raised:" + type(e).__name__, "banner": 0}
                if detail:
                    texts[fmt]["full"] = "raised %s: %s" % (type(e).__name__, str(e)[:300])
        out["texts"] = texts
    finally:
        xl.PYTHON_MAGIC_INT = saved
        sys.stdout, sys.stderr = old_out, old_err
    out["stdout_bytes"] = len(cap.getvalue())
    if detail:
        out["stdout"] = cap.getvalue()[:400]
    return out


def _job_child(job, rundir):
    with core.FixedHeadroom():
        return _job_child2(job, rundir)


def _group_child(jobs, rundir):
    """several files decoded one after the other in ONE process (a long-lived replica)"""
    out = {}
    with core.FixedHeadroom():
        for job in jobs:
            rows = _job_child2(job, rundir)
            for r in rows:
                r["arm"] = r["arm"] + "@shared"
            out[job["id"]] = rows
    return out


def _job_child2(job, rundir):
    d = os.path.join(rundir, "n-%s-%d" % (HOST, os.getpid()))
    os.makedirs(d, exist_ok=True)
    os.chdir(d)
    try:
        with open(job["path"], "rb") as f:
            data = f.read()
        with open(job["name"], "wb") as f:
            f.write(data)
        os.utime(job["name"], (1700000000, 1700000000))
        res = []
        for arm in job["arms"]:
            res.append(_one_arm(job, arm))
        return res
    finally:
        os.chdir(rundir)
        try:
            for n in os.listdir(d):
                os.unlink(os.path.join(d, n))
            os.rmdir(d)
        except OSError:
            pass


def main():
    with open(sys.argv[1]) as f:
        spec = json.load(f)
    core.verify_xdis_origin()
    rundir = spec["rundir"]
    import xdis.magics as m

    results = {"host": HOST, "host_magic": int(m.PYTHON_MAGIC_INT), "results": {}, "shared": {}}
    groups = {}
    for job in spec["jobs"]:
        if job.get("group") is not None:
            groups.setdefault(job["group"], []).append(job)
    for g in sorted(groups):
        r = core.fork_call(_group_child, (groups[g], rundir), timeout=600, as_extra=2 << 30)
        if r.status == "ok":
            results["shared"].update(r.value)
        else:
            for job in groups[g]:
                results["shared"][job["id"]] = [{"arm": "default@shared", "host": HOST, "node_failure": r.status,
                                                 "detail": str(r.value)[-400:] if r.value else None}]
    for job in spec["jobs"]:
        if job.get("group") is not None:
            continue
        r = core.fork_call(_job_child, (job, rundir), timeout=300, as_extra=2 << 30)
        if r.status == "ok":
            results["results"][job["id"]] = r.value
        else:
            results["results"][job["id"]] = [{"arm": a, "host": HOST, "node_failure": r.status,
                                              "detail": str(r.value)[-400:] if r.value else None,
                                              "signal": r.signal} for a in job["arms"]]
    with open(sys.argv[2], "w") as f:
        json.dump(results, f)


if __name__ == "__main__":
    main()
