#!/bin/bash
# Sensitivity test: revert each "fix:" commit of /repo in a scratch worktree (when it still reverts cleanly) and run
# the check of the property it was recorded under (quick tier).  A reverted repair must make the check fail again.
# usage: tools/regress_fixes.sh [commit ...]   (default: every fixed entry of known_findings.json)
cd /verif
if [ $# -gt 0 ]; then list="$*"; else
list=$(python3 - <<'P'
import json
seen=[]
for f in json.load(open("/verif/known_findings.json"))["findings"]:
    if f.get("status")=="fixed" and f.get("commit"):
        for c in f["commit"].replace("+"," ").split():
            k=(c,f["property"])
            if k not in seen: seen.append(k)
print(" ".join("%s:%s"%k for k in seen))
P
)
fi
for item in $list; do
  c=${item%%:*}; prop=${item##*:}
  wt=/tmp/wt-revert-$$
  git -C /repo worktree add -q --detach $wt HEAD || exit 9
  if ! git -C $wt revert --no-commit $c >/dev/null 2>&1; then
    echo "RESULT revert $c ($prop) does-not-revert-cleanly"
    git -C /repo worktree remove --force $wt; continue
  fi
  t0=$(date +%s)
  XDIS_VERIF_REPO=$wt timeout 3000 ./check $prop > /tmp/revert-out.$$ 2>&1; rc=$?
  t1=$(date +%s)
  grep -E "^  class" /tmp/revert-out.$$ | cut -c1-200 | head -4
  echo "RESULT revert $c ($prop) rc=$rc wall=$((t1-t0))s"
  git -C /repo worktree remove --force $wt
  rm -f /tmp/revert-out.$$
done
