#!/bin/bash
# usage: tools/try_mutation.sh <dir with patch.diff demo.py> <PROP> [extra check args]
# 1. confirms in a scratch worktree: tests still pass with the change, demo fails with / passes without
# 2. applies the change to /repo, runs ./check PROP, reverts.  Prints a one-line summary.
set -u
d=$(cd "$1" && pwd); prop=$2; shift 2
wt=/tmp/wt-verify-$$
git -C /repo worktree add -q --detach $wt HEAD || exit 9
cleanup() { git -C /repo worktree remove --force $wt 2>/dev/null; }
trap cleanup EXIT
cd $wt
PYTHONPATH=$wt timeout 600 /venv/bin/python $d/demo.py >/tmp/demo-clean.$$ 2>&1; clean_rc=$?
if ! git apply $d/patch.diff; then echo "RESULT $d patch-does-not-apply"; exit 3; fi
tests=$(PYTHONPATH=$wt timeout 900 /venv/bin/python -m pytest -q -p no:cacheprovider --timeout=900 --continue-on-collection-errors 2>&1 | tail -1)
PYTHONPATH=$wt timeout 600 /venv/bin/python $d/demo.py >/tmp/demo-mut.$$ 2>&1; mut_rc=$?
git checkout -q -- .
cd /verif
echo "verify: demo clean rc=$clean_rc, demo mutated rc=$mut_rc, tests: $tests"
case "$tests" in *"39 passed"*) ;; *) echo "RESULT $d tests-not-39"; exit 4;; esac
if [ $clean_rc -ne 0 ] || [ $mut_rc -eq 0 ]; then echo "RESULT $d demo-not-discriminating"; exit 5; fi
# run the check against the changed tree: the scratch worktree stands in for /repo (XDIS_VERIF_REPO), so that
# background runs against /repo itself are not disturbed; `git -C /repo apply` + checkout is equivalent
git -C $wt apply $d/patch.diff || { echo "RESULT $d apply-failed"; exit 6; }
t0=$(date +%s)
XDIS_VERIF_REPO=$wt timeout 3000 ./check $prop "$@" > /tmp/check-out.$$ 2>&1; rc=$?
t1=$(date +%s)
git -C $wt checkout -q -- .
grep -E "^VIOLATION|^KNOWN|HARNESS|^  class" /tmp/check-out.$$ | cut -c1-260 | head -8
echo "RESULT $d check=$prop rc=$rc wall=$((t1-t0))s"
rm -f /tmp/demo-clean.$$ /tmp/demo-mut.$$ /tmp/check-out.$$
