#!/bin/bash
# usage: tools/try_benign.sh <dir with patch.diff> [checks...]  - a behaviour-preserving change must not raise an alarm
set -u
d=$(cd "$1" && pwd); shift
checks=${@:-C11 C18 C07}
wt=/tmp/wt-benign-$$
git -C /repo worktree add -q --detach $wt HEAD || exit 9
trap "git -C /repo worktree remove --force $wt 2>/dev/null" EXIT
if ! git -C $wt apply $d/patch.diff; then echo "RESULT $d patch-does-not-apply"; exit 3; fi
tests=$(cd $wt && PYTHONPATH=$wt timeout 900 /venv/bin/python -m pytest -q -p no:cacheprovider --timeout=900 --continue-on-collection-errors 2>&1 | tail -1)
echo "tests: $tests"
cd /verif
for c in $checks; do
  XDIS_VERIF_REPO=$wt timeout 3000 ./check $c > /tmp/benign-out.$$ 2>&1; rc=$?
  grep -E "^VIOLATION|HARNESS|^  class" /tmp/benign-out.$$ | cut -c1-300 | head -5
  echo "RESULT $d check=$c rc=$rc"
done
rm -f /tmp/benign-out.$$
