#!/bin/bash
# re-run every stored seeded regression against its check (quick tier); prints one RESULT line each
cd /verif
for d in seeded/[A-Z]*/; do
  prop=$(python3 -c "import json,sys; print(json.load(open('$d/meta.json'))['property'])")
  tools/try_mutation.sh $d $prop 2>&1 | grep "^RESULT"
done
