#!/usr/bin/env python3
"""tools/store_seeded.py <src dir> <id> <PROP> <needs> <caught_by> <result>  - copy a verified seeded change into /verif/seeded/<id>/"""
import json, os, shutil, sys
src, sid, prop, needs, caught_by, result = sys.argv[1:7]
dst = os.path.join('/verif/seeded', sid)
os.makedirs(dst, exist_ok=True)
for n in os.listdir(src):
    p = os.path.join(src, n)
    if os.path.isfile(p) and os.path.getsize(p) < 300000 and not n.endswith('.pyc.tmp'):
        shutil.copy(p, os.path.join(dst, n))
meta = {"id": sid, "property": prop, "needs_to_manifest": needs,
        "verified": "tools/try_mutation.sh: patch applied in a scratch worktree of /repo HEAD; baseline suite still '39 passed' with the same 8 known failures; demo.py exits 0 on the unchanged tree and non-zero with the change",
        "ran": "tools/try_mutation.sh %s %s (applies the patch to /repo, runs ./check %s --tier quick, reverts with git checkout)" % (src, prop, prop),
        "detected_by": caught_by, "result": result, "origin": "independent sub-agent given only the property text and a scratch worktree"}
json.dump(meta, open(os.path.join(dst, 'meta.json'), 'w'), indent=1)
print("stored", dst)
